"""C19 - thermal and random displacements follow harmonic canonical statistics.

Linear-map extraction monitor: the sampler is a linear image of the standard normal variates it is handed
(run(T, randn=...)), so one-hot variates give the columns of the map A and A A^T is compared with the canonical
covariance from the harness' own diagonalisation of the 3N x 3N supercell dynamical matrix.
"""

from __future__ import annotations

import numpy as np

PROP = "C19"
LEVEL = "exploration"
VARIANTS = ("omp",)
CASE_TIMEOUT = 1200
RULE = ("kind random: zoo crystal x supercell (with q=-q+G points only, and with conjugate pairs) x primitive matrix x quantum|classical x T in {0, 10, 300, 2000} x cutoff: "
        "covariance A A^T of the sampler (one-hot variates) vs canonical covariance; uu equals it, uu.uu_inv is the projector on the included modes, run_d2f returns the original constants; "
        "kind msd: mean-square displacement matrices on full meshes vs the harness' mode sum, symmetric PSD, Cartesian diagonal = ThermalDisplacements, CIF transform, frequency windows, projection directions; "
        "non-trivial = supercell with >= 2 atoms and at least 4 included modes; distinct = parameter tuple; "
        "additions of rounds 6-8: rebuilt force constants re-read after later requests; interleaved centred cells")
ASSUMPTIONS = [
    "canonical covariance from numpy.linalg.eigh of M^-1/2 Phi M^-1/2 with phonopy.units constants",
    "imaginary / below-cutoff modes are excluded on both sides (the harness applies the same frequency cutoff rule to its own spectrum)",
]
MIN_NONTRIVIAL = {"quick": 40, "thorough": 300}


def gen_cases(tier, seed):
    from vlib.gen import crystals, setup

    rng = np.random.default_rng([seed, 19])
    cases = []
    names = ["rocksalt", "cscl", "sc", "fcc", "hcp", "rutile", "tric2", "wurtzite", "zincblende", "diamond", "mono_p", "bcc"]
    smats = [np.diag([2, 2, 2]).tolist(), np.diag([3, 1, 1]).tolist(), np.diag([3, 2, 1]).tolist(), [[1, 1, 0], [-1, 1, 0], [0, 0, 1]], np.diag([1, 1, 3]).tolist(),
             [[2, 1, 0], [0, 2, 0], [0, 0, 1]], np.diag([2, 1, 1]).tolist(), np.diag([3, 3, 1]).tolist()]
    for i in range(40 if tier == "quick" else 300):
        name = names[i % len(names)]
        sm = smats[rng.integers(len(smats))]
        if crystals.natoms(name) * setup.det3(sm) > 40:
            sm = np.diag([2, 1, 1]).tolist()
        cases.append({"kind": "random", "crystal": {"name": name, "order": ["asis", "random"][rng.integers(2)], "order_seed": int(rng.integers(100))}, "smat": sm,
                      "pmat": ["P", "centring"][rng.integers(2)], "dist": ["quantum", "classical"][rng.integers(2)], "T": [0.0, 10.0, 300.0, 2000.0][rng.integers(4)],
                      "cutoff": [None, 0.5, 2.0][rng.integers(3)], "seed": int(rng.integers(10 ** 6)), "_cost": (crystals.natoms(name) * setup.det3(sm)) ** 2})
    # centred cells whose unit cell lists the species interleaved (Na Cl Na Cl ...): the lattice images of one primitive atom are then not a
    # contiguous block of the supercell, and the species differ in mass - per-atom quantities must go through the maps, not through block arithmetic
    for i in range(4 if tier == "quick" else 24):
        name = ["rocksalt", "zincblende", "fluorite", "rocksalt"][i % 4]
        sm = [np.diag([1, 1, 1]).tolist(), np.diag([2, 1, 1]).tolist()][i % 2]
        if crystals.natoms(name) * setup.det3(sm) > 40:
            sm = np.diag([1, 1, 1]).tolist()
        cases.append({"kind": "random", "crystal": {"name": name, "order": ["interleave", "random"][i // 2 % 2], "order_seed": int(rng.integers(100))}, "smat": sm,
                      "pmat": "centring", "dist": ["quantum", "classical"][i % 2], "T": [300.0, 10.0, 2000.0][i % 3],
                      "cutoff": None, "seed": int(rng.integers(10 ** 6)), "_cost": (crystals.natoms(name) * setup.det3(sm)) ** 2})
    for i in range(16 if tier == "quick" else 100):
        cases.append({"kind": "msd", "crystal": {"name": names[i % len(names)], "order": "asis"}, "mesh": [int(v) for v in rng.integers(1, 4, 3)],
                      "fmin": [None, 0.5][rng.integers(2)], "fmax": [None, 6.0][rng.integers(2)], "seed": int(rng.integers(10 ** 6)), "_cost": 200,
                      "heavy": bool(rng.integers(4) == 3)})  # heavy: masses x 2500 -> spectrum / 50, so that h nu ~ k_B T around 1 K
    return cases


def canonical_cov(fc, masses, T, dist, cutoff, factor):
    from phonopy import units as U

    n = len(masses)
    M = np.repeat(masses, 3)
    Phi = fc.transpose(0, 2, 1, 3).reshape(3 * n, 3 * n)
    Phi = (Phi + Phi.T) / 2
    D = Phi / np.sqrt(np.outer(M, M))
    w, V = np.linalg.eigh(D)
    f = np.sqrt(np.abs(w)) * factor  # THz
    cond = f > cutoff
    # included modes must be real (positive eigenvalue): imaginary ones treated by |w| in the code; the harness excludes negative w above cutoff by listing them
    omega = 2 * np.pi * f * 1e12
    s2 = np.zeros_like(f)
    if dist == "classical":
        s2[cond] = U.Kb * T * U.EV / omega[cond] ** 2 / U.AMU / U.Angstrom ** 2
    else:
        nocc = np.zeros_like(f)
        if T > 0:
            x = f[cond] * U.THzToEv / (U.Kb * T)
            nocc[cond] = 1.0 / np.expm1(x)
        s2[cond] = U.Hbar * U.EV / U.Angstrom ** 2 * (nocc[cond] + 0.5) / omega[cond] / U.AMU
    C = (V * s2) @ V.T / np.sqrt(np.outer(M, M))
    return C, cond, w, V, f


def run_case(c):
    from vlib.gen import models, setup

    viol, obs = [], {}

    def bad(kind, msg, **kw):
        if len(viol) < 8:
            viol.append(dict(kind=kind, msg=msg, **kw))

    ph, cd = setup.build_phonopy(dict(c, pmat=None) if "smat" in c else {"crystal": c["crystal"], "smat": np.diag([2, 2, 2]).tolist()})
    pm = setup.resolve_pmat(cd, c.get("pmat", "centring"))
    if pm != "P":
        base = dict(c, pmat=pm) if "smat" in c else {"crystal": c["crystal"], "smat": np.diag([2, 2, 2]).tolist(), "pmat": pm}
        ph, cd = setup.build_phonopy(base)
    sc, pr = ph.supercell, ph.primitive
    fc = models.pair_fc(sc.cell, sc.scaled_positions, sc.symbols, cutoff=4.8)
    if np.abs(fc).max() < 1e-8:
        return {"skip": "no interaction"}
    ph.force_constants = fc
    factor = ph.unit_conversion_factor
    if c["kind"] == "random":
        T, dist = c["T"], c["dist"]
        cutoff = 0.01 if c["cutoff"] is None else c["cutoff"]
        ph.init_random_displacements(dist_func=dist, cutoff_frequency=c["cutoff"])
        rd = ph.random_displacements
        nii, nij = len(rd._eigvals_ii), (len(rd._eigvals_ij) if rd._ij else 0)
        nb = len(rd._eigvals_ii[0])
        ns = len(sc)
        cols = []
        for k in range(nii * nb):
            zii = np.zeros((nii, 1, nb))
            zii[k // nb, 0, k % nb] = 1.0
            zij = np.zeros((nij, 2, 1, nb)) if nij else None
            rd.run(T, number_of_snapshots=1, randn=(zii, zij))
            cols.append(np.array(rd.u[0]).ravel())
        for k in range(nij * 2 * nb):
            zii = np.zeros((nii, 1, nb))
            zij = np.zeros((nij, 2, 1, nb))
            zij[k // (2 * nb), (k // nb) % 2, 0, k % nb] = 1.0
            rd.run(T, number_of_snapshots=1, randn=(zii, zij))
            cols.append(np.array(rd.u[0]).ravel())
        A = np.array(cols).T
        Ccode = A @ A.T
        if dist == "classical" and T == 0:
            Cwant = np.zeros_like(Ccode)
            cond = np.zeros(3 * ns, bool)
            cond_n = 0
            Cw, cond2, w, V, f = canonical_cov(fc, np.array(sc.masses), 1.0, dist, cutoff, factor)
            n_included = int(cond2.sum())
            scale = 1.0
        else:
            Cwant, cond, w, V, f = canonical_cov(fc, np.array(sc.masses), T, dist, cutoff, factor)
            n_included = int(cond.sum())
            scale = max(np.abs(Cwant).max(), 1e-300)
        feat = dict(dist=dist, T=T, cutoff=c["cutoff"], nii=nii, nij=nij, natom=ns)
        obs["n_cov"] = 1
        obs["with_ij_pairs" if nij else "only_ii_points"] = 1
        # modes within the don't-care band of the cutoff (|f - cutoff| tiny) would be ambiguous: skip such cases
        if (np.abs(f - cutoff) < 1e-6).any():
            return {"skip": "mode exactly at the cutoff"}
        if (w[f > cutoff] < 0).any():
            return {"skip": "imaginary mode above cutoff (pair model should not have any)"}
        e = np.abs(Ccode - Cwant).max()
        if e > 1e-9 * scale:
            bad("covariance", "covariance of the sampler A A^T differs from the canonical covariance by %.3e (scale %.3e); variates used: %d" % (e, scale, A.shape[1]), **feat)
        if A.shape[1] != 3 * ns:
            bad("variate_count", "sampler consumes %d variates, expected %d (3N)" % (A.shape[1], 3 * ns), **feat)
        # the variates the sampler really draws (its own generator, with and without a seed): pull them back through the measured map A and
        # test independence: no repeated coincidences (probability zero for independent continuous variates), pooled mean 0 / variance 1, and no
        # sample correlation between different variates beyond the 0.5 mark (400 snapshots: the null spread is 0.05)
        if not (dist == "classical" and T == 0) and n_included >= 4:
            K = 400
            Ap = np.linalg.pinv(A)
            used = np.linalg.norm(A, axis=0) > 1e-12 * np.abs(A).max()
            for seed_ in (None, int(c["seed"] % 10007) + 1):
                rd.run(T, number_of_snapshots=K, random_seed=seed_)
                Uk = np.array(rd.u).reshape(K, -1)
                Z = (Ap @ Uk.T).T[:, used]
                obs["n_variates_recovered"] = obs.get("n_variates_recovered", 0) + int(Z.size)
                if np.abs(A[:, used] @ Z.T - Uk.T).max() > 1e-8 * max(np.abs(Uk).max(), 1e-300):
                    bad("not_linear_image", "displacements drawn with random_seed=%r are not in the image of the measured linear map (residual %.3e)" % (
                        seed_, np.abs(A[:, used] @ Z.T - Uk.T).max()), seeded=seed_ is not None, **feat)
                    continue
                srt = np.sort(Z, axis=1)
                gap = np.diff(srt, axis=1)
                # (an accidental coincidence below 1e-9 has probability ~5e-4 per case; three of them ~1e-11. A shared stream gives K or more.)
                ndup = int((gap < 1e-9).sum())
                if ndup >= 3:
                    bad("variates_not_independent", "%d pairs of the %d x %d variates drawn with random_seed=%r coincide (independent normal variates never do)" % (
                        ndup, K, Z.shape[1], seed_), seeded=seed_ is not None, **feat)
                m_, v_ = float(Z.mean()), float(Z.var())
                nz = Z.size
                if abs(m_) > 6.0 / np.sqrt(nz) or abs(v_ - 1.0) > 6.0 * np.sqrt(2.0 / nz):
                    bad("variates_not_standard_normal", "pooled variates drawn with random_seed=%r have mean %.4f and variance %.4f (n=%d)" % (seed_, m_, v_, nz), seeded=seed_ is not None, **feat)
                if Z.shape[1] >= 2:
                    R = np.corrcoef(Z.T)
                    np.fill_diagonal(R, 0.0)
                    if np.abs(R).max() > 0.5:
                        bad("variates_not_independent", "sample correlation %.2f between two different variates over %d snapshots (random_seed=%r)" % (np.abs(R).max(), K, seed_), seeded=seed_ is not None, **feat)
        # correlation matrices
        if not (dist == "classical" and T == 0):
            rd.run_correlation_matrix(T)
            uu = np.array(rd.uu).transpose(0, 2, 1, 3).reshape(3 * ns, 3 * ns)
            uui = np.array(rd.uu_inv).transpose(0, 2, 1, 3).reshape(3 * ns, 3 * ns)
            obs["n_uu"] = 1
            e = np.abs(uu - Cwant).max()
            if e > 1e-9 * scale:
                bad("uu", "reported correlation matrix uu differs from the canonical covariance by %.3e (scale %.3e)" % (e, scale), **feat)
            X = uu @ uui
            if np.abs(X @ X - X).max() > 1e-7 or abs(np.trace(X) - n_included) > 1e-6:
                bad("uu_inverse", "uu.uu_inv is not the projector on the included modes: idempotence error %.3e, trace %.6f vs %d" % (np.abs(X @ X - X).max(), np.trace(X), n_included), **feat)
        # d2f with unmodified eigen-solutions
        rd.run_d2f()
        f2 = np.array(rd.force_constants)
        obs["n_d2f"] = 1
        if np.abs(f2 - fc).max() > 1e-9 * np.abs(fc).max():
            bad("d2f", "run_d2f with unmodified eigen-solutions differs from the original force constants by %.3e" % np.abs(f2 - fc).max(), **feat)
        # ... and they stay what they are while the object goes on working (the caller keeps the array it was handed; later requests - the
        # correlation matrices, another run_d2f - must not write into it, nor change what the object reports as its rebuilt constants)
        held = rd.force_constants
        if not (dist == "classical" and T == 0):
            rd.run_correlation_matrix(T)
            uu2 = np.array(rd.uu).transpose(0, 2, 1, 3).reshape(3 * ns, 3 * ns)
            obs["n_d2f_then_other_requests"] = 1
            if np.abs(np.array(held) - f2).max() > 0 or np.abs(np.array(rd.force_constants) - f2).max() > 1e-12 * np.abs(fc).max():
                bad("d2f_result_overwritten", "the force constants rebuilt by run_d2f changed by %.3e (array held by the caller) / %.3e (as reported by the object) when the correlation "
                    "matrix was requested afterwards" % (np.abs(np.array(held) - f2).max(), np.abs(np.array(rd.force_constants) - f2).max()), **feat)
            if np.abs(uu2 - Cwant).max() > 1e-9 * scale:
                bad("uu", "correlation matrix requested after run_d2f differs from the canonical covariance by %.3e (scale %.3e)" % (np.abs(uu2 - Cwant).max(), scale), after_d2f=True, **feat)
        rd.run_d2f()
        if np.abs(np.array(held) - f2).max() > 0 and held is not rd.force_constants:
            bad("d2f_result_overwritten", "a second run_d2f wrote into the array the first one had handed out (changed by %.3e)" % np.abs(np.array(held) - f2).max(), **feat)
        if np.abs(np.array(rd.force_constants) - fc).max() > 1e-9 * np.abs(fc).max():
            bad("d2f", "second run_d2f differs from the original force constants by %.3e" % np.abs(np.array(rd.force_constants) - fc).max(), second=True, **feat)
        # a second sampler in another unit system (the factor is a constructor argument; the API passes the calculator's), with the documented
        # read-back / write-back of the frequencies applied with nothing modified: still "unmodified eigen-solutions", so the canonical
        # covariance in that unit system and the original force constants must come out (round 9)
        from phonopy.phonon.random_displacements import RandomDisplacements

        fac2 = factor * (0.8 if c["seed"] % 3 else 1.0)
        rd2 = RandomDisplacements(sc, pr, np.array(fc), dist_func=dist, cutoff_frequency=c["cutoff"], factor=fac2)
        rd2.frequencies = rd2.frequencies
        obs["n_other_unit_factor_writeback"] = 1
        obs["n_other_unit_factor_nondefault"] = int(fac2 != factor)
        rd2.run_d2f()
        if np.abs(np.array(rd2.force_constants) - fc).max() > 1e-9 * np.abs(fc).max():
            bad("d2f", "sampler with unit factor %.6g, frequencies read and written back unchanged: run_d2f differs from the original force constants by %.3e" % (
                fac2, np.abs(np.array(rd2.force_constants) - fc).max()), unit_factor_ratio=fac2 / factor, writeback=True, **feat)
        if not (dist == "classical" and T == 0):
            C2, cond2_, w2_, V2_, f2_ = canonical_cov(fc, np.array(sc.masses), T, dist, cutoff, fac2)
            if not (np.abs(f2_ - cutoff) < 1e-6).any() and not (w2_[f2_ > cutoff] < 0).any():
                rd2.run_correlation_matrix(T)
                uu_ = np.array(rd2.uu).transpose(0, 2, 1, 3).reshape(3 * ns, 3 * ns)
                sc2_ = max(np.abs(C2).max(), 1e-300)
                if np.abs(uu_ - C2).max() > 1e-9 * sc2_:
                    bad("uu", "sampler with unit factor %.6g, frequencies read and written back unchanged: correlation matrix differs from the canonical covariance by %.3e (scale %.3e)" % (
                        fac2, np.abs(uu_ - C2).max(), sc2_), unit_factor_ratio=fac2 / factor, writeback=True, **feat)
        key = "rd|%s|%s|%s|%s|%s|%s" % (c["crystal"]["name"], c["smat"], c["pmat"], dist, T, c["cutoff"])
        return {"viol": viol, "nontrivial": bool(ns >= 2 and n_included >= 4), "key": key, "obs": obs, "evals": A.shape[1],
                "sample": {"kind": "random", "crystal": c["crystal"], "smat": c["smat"], "pmat": pm, "dist": dist, "T": T, "cutoff": c["cutoff"], "n_ii": nii, "n_ij": nij,
                           "n_included_modes": n_included, "rel_err": float(e / scale) if scale else None}}

    # ---------------- mean square displacement matrices
    from phonopy import units as U

    mesh = c["mesh"]
    if c.get("heavy"):
        ph.masses = np.array(ph.masses) * 2500.0
        c = dict(c, fmin=None if c["fmin"] is None else c["fmin"] / 50.0, fmax=None if c["fmax"] is None else c["fmax"] / 50.0)
    if c["fmin"] is None:
        # without a lower frequency bound the numerically-zero acoustic modes at Gamma (|nu| ~ 1e-8 THz, sign random) would dominate both sides with
        # amplified round-off: use even Monkhorst-Pack meshes, which do not contain Gamma
        mesh = [2 * max(1, v // 2 + v % 2) if v > 1 else 2 for v in mesh]
    ph.run_mesh(mesh, with_eigenvectors=True, is_mesh_symmetry=False)
    temps = np.array([0.0, 0.7, 10.0, 300.0, 2000.0])
    kw = {}
    if c["fmin"] is not None:
        kw["freq_min"] = c["fmin"]
    if c["fmax"] is not None:
        kw["freq_max"] = c["fmax"]
    ph.run_thermal_displacement_matrices(temperatures=temps, **kw)
    tdm = ph.thermal_displacement_matrices
    B = np.array(tdm.thermal_displacement_matrices)
    Bcif = np.array(tdm.thermal_displacement_matrices_cif) if tdm.thermal_displacement_matrices_cif is not None else None
    md = ph.get_mesh_dict()
    fr, ev = np.array(md["frequencies"]), np.array(md["eigenvectors"])
    m = np.array(pr.masses)
    nat = len(pr)
    nq = len(fr)
    fmin = 0.0 if c["fmin"] is None else c["fmin"]
    want = np.zeros((len(temps), nat, 3, 3), complex)
    for iq in range(nq):
        for ib in range(3 * nat):
            f = fr[iq, ib]
            if not (f > fmin) or (c["fmax"] is not None and not f < c["fmax"]):
                continue
            om = 2 * np.pi * f * 1e12
            e = ev[iq][:, ib].reshape(nat, 3)
            for it, T in enumerate(temps):
                nocc = 0.0 if T <= 0 else 1.0 / np.expm1(f * U.THzToEv / (U.Kb * T))
                pref = U.Hbar * U.EV / U.Angstrom ** 2 * (1 + 2 * nocc) / (2 * om)
                for j in range(nat):
                    want[it, j] += pref * np.outer(e[j], e[j].conj()) / (m[j] * U.AMU)
    want = want.real / nq
    scale = max(np.abs(want).max(), 1e-300)
    feat = dict(mesh=mesh, fmin=c["fmin"], fmax=c["fmax"], heavy=bool(c.get("heavy")))
    obs["n_msd"] = 1
    e = np.abs(B - want).max()
    if e > 1e-9 * scale:
        it = int(np.argmax(np.abs(B - want).max(axis=(1, 2, 3))))
        bad("msd_matrix", "mean-square displacement matrices differ from (hbar/2Nm) sum (1+2n)/w e x e* by %.3e (scale %.3e), worst at T=%g" % (e, scale, temps[it]), T=float(temps[it]), **feat)
    if np.abs(B - B.transpose(0, 1, 3, 2)).max() > 1e-12 * scale:
        bad("msd_not_symmetric", "mean-square displacement matrix not symmetric", **feat)
    ev_min = min(np.linalg.eigvalsh((B[it, j] + B[it, j].T) / 2).min() for it in range(len(temps)) for j in range(nat))
    if ev_min < -1e-12 * scale:
        bad("msd_not_psd", "mean-square displacement matrix has a negative eigenvalue %.3e" % ev_min, **feat)
    ph.run_thermal_displacements(temperatures=temps, **kw)
    td = np.array(ph.thermal_displacements.thermal_displacements)  # (T, 3*nat)
    diag = np.array([[B[it, j, a, a] for j in range(nat) for a in range(3)] for it in range(len(temps))])
    obs["n_msd_diag"] = 1
    if np.abs(td - diag).max() > 1e-9 * scale:
        bad("msd_diagonal", "ThermalDisplacements differ from the Cartesian diagonal of the matrices by %.3e" % np.abs(td - diag).max(), **feat)
    # projection along a direction d: <|u.d|^2> = d^T B d
    dred = np.array([1.0, 0.3, -0.2])
    ph.run_thermal_displacements(temperatures=temps, direction=dred, **kw)
    tdp = np.array(ph.thermal_displacements.thermal_displacements)
    dc = dred @ np.array(pr.cell)
    dc = dc / np.linalg.norm(dc)
    wantp = np.array([[dc @ B[it, j] @ dc for j in range(nat)] for it in range(len(temps))])
    obs["n_msd_projection"] = 1
    if tdp.shape != wantp.shape or np.abs(tdp - wantp).max() > 1e-9 * scale:
        bad("msd_projection", "projected mean-square displacement differs from d^T B d by %.3e" % (np.abs(tdp - wantp).max() if tdp.shape == wantp.shape else np.inf), **feat)
    if Bcif is not None:
        Acol = np.array(pr.cell).T
        Nn = np.diag([np.linalg.norm(x) for x in np.linalg.inv(Acol)])
        AN = Acol @ Nn
        wantc = np.array([[np.linalg.inv(AN) @ B[it, j] @ np.linalg.inv(AN).T for j in range(nat)] for it in range(len(temps))])
        obs["n_cif"] = 1
        if np.abs(Bcif - wantc).max() > 1e-9 * max(np.abs(wantc).max(), 1e-300):
            bad("msd_cif", "CIF-convention matrices differ from (AN)^-1 U (AN)^-T by %.3e" % np.abs(Bcif - wantc).max(), **feat)
    key = "msd|%s|%s|%s|%s" % (c["crystal"]["name"], mesh, c["fmin"], c["fmax"])
    return {"viol": viol, "nontrivial": True, "key": key, "obs": obs, "evals": nq,
            "sample": {"kind": "msd", "crystal": c["crystal"], "mesh": mesh, "fmin": c["fmin"], "fmax": c["fmax"], "rel_err": float(e / scale)}}


def summarize(results, obs, tier):
    inc = []
    for k in ("n_cov", "with_ij_pairs", "only_ii_points", "n_uu", "n_d2f", "n_msd", "n_msd_diag", "n_msd_projection", "n_cif"):
        if obs.get(k, 0) == 0:
            inc.append("%s never exercised" % k)
    return {}, inc
