"""C08 - non-analytical term correction has the right limits.

Reference-model monitor: closed-form zone-centre term from the Z, eps stored in the dynamical-matrix object after
symmetrisation; no-op identities at commensurate q and for zero charges; symmetrisation vs the harness' own group average.
"""

from __future__ import annotations

import numpy as np

PROP = "C08"
LEVEL = "exploration"
VARIANTS = ("omp",)
CASE_TIMEOUT = 1200
RULE = ("cases = polar zoo crystal x supercell x primitive matrix x method (wang|gonze) x full/compact x unit factor; per case: 8 directions n at Gamma "
        "(incl. n scaled by 1e-3 and 1e3, and q = small vector along n without q_direction), all commensurate q != 0 (Wang exact; Gonze-Lee exact at the unique "
        "first-BZ representative, reciprocal-sum precision at tied/outside ones), zero Born charges at random q and at Gamma with direction, "
        "symmetrised (Z, eps) vs harness group average; non-trivial = max|NAC term|>1e-6 of max|D| and N>1; distinct = (crystal, smat, pmat, method, layout); "
        "additions of rounds 6-8: thread counts 1-16; requests of several q-points with the exact zone centre in the middle, without and with a direction; near-tied zone-boundary images counted the way phonopy's BrillouinZone counts them; directions below the documented zero tolerance skipped")
ASSUMPTIONS = [
    "n.Z contracts the first Cartesian index of the Born tensor (field/polarisation index), as documented for the BORN file",
    "Gonze-Lee: 'stated reciprocal-sum precision' taken as 1e-3 of the dipole-dipole scale away from the first-BZ representative used in its construction",
]
MIN_NONTRIVIAL = {"quick": 40, "thorough": 200}


def gen_cases(tier, seed):
    from vlib.gen import crystals, setup

    rng = np.random.default_rng([seed, 8])
    per = 6 if tier == "quick" else 80
    max_atoms = 40 if tier == "quick" else 72
    cases = []
    for name in crystals.POLAR:
        nu = crystals.natoms(name)
        smats = setup.smat_list(max(1, max_atoms // nu), rng=rng, n_random=2)
        smats = [m for m in smats if setup.det3(m) > 1] or smats
        for k in range(per):
            sm = smats[rng.integers(len(smats))]
            cases.append({"crystal": {"name": name, "order": ["asis", "interleave", "random"][rng.integers(3)], "order_seed": int(rng.integers(1000)),
                                      "rot_seed": int(rng.integers(100)) if rng.integers(2) else None},
                          "smat": sm, "pmat": ["P", "centring"][rng.integers(2)], "method": ["wang", "gonze"][k % 2], "full": bool(rng.integers(2)),
                          "factor": [14.399652, 2.0, 1.0, 14.399652 / 0.529177 / 13.6][rng.integers(4)], "seed": int(rng.integers(10 ** 6)),
                          "_threads": [1, 2, 3, 5, 7, 16][int(np.random.default_rng([seed, k, len(cases)]).integers(6))],  # (own generator: the case stream stays what it was)
                          "_cost": (nu * setup.det3(sm)) * (5 if k % 2 else 1)})
    return cases


def nac_term(n_cart, Z, eps, V, f, masses):
    A = np.einsum("g,jga->ja", n_cart, Z)  # (natom, 3)
    den = n_cart @ eps @ n_cart
    nat = len(Z)
    T = np.zeros((3 * nat, 3 * nat))
    for j in range(nat):
        for k in range(nat):
            T[3 * j:3 * j + 3, 3 * k:3 * k + 3] = np.outer(A[j], A[k]) / np.sqrt(masses[j] * masses[k])
    return 4 * np.pi / V * f * T / den


def run_case(c):
    from checks.c02 import commensurate_q
    from vlib.gen import models, nac as nacgen, setup

    ph, cd = setup.build_phonopy(dict(c, pmat=None))
    pm = setup.resolve_pmat(cd, c["pmat"])
    if pm != "P":
        ph, cd = setup.build_phonopy(dict(c, pmat=pm))
    sc, pr = ph.supercell, ph.primitive
    rng = np.random.default_rng(c["seed"])
    fc = models.pair_fc(sc.cell, sc.scaled_positions, sc.symbols, cutoff=rng.uniform(3.2, 5.5))
    p2s = np.array(pr.p2s_map)
    fcin = np.array(fc if c["full"] else fc[p2s], dtype="double", order="C")
    if np.abs(fc).max() < 1e-8:
        return {"skip": "no interaction"}
    ph.force_constants = fcin.copy()
    ph0, _ = setup.build_phonopy(dict(c, pmat=pm))
    ph0.force_constants = fcin.copy()
    # un-symmetrised input: phonopy symmetrises; the harness group-averages independently
    nat = len(pr)
    Zraw = rng.standard_normal((nat, 3, 3)) + 2.0 * np.array([np.eye(3) * (1 if i % 2 == 0 else -1) for i in range(nat)])
    A = rng.standard_normal((3, 3))
    eraw = A @ A.T + 3.0 * np.eye(3)
    # Born charges, dielectric tensor and directions are handed over in whatever container / memory layout (list, Fortran order, strided ...)
    from vlib.gen.layout import relayout

    lrng = np.random.default_rng(c.get("seed", 0) + 13)
    b_in, bkind = relayout(Zraw, lrng)
    e_in, ekind = relayout(eraw, lrng)
    params = {"born": b_in, "dielectric": e_in, "factor": c["factor"], "method": c["method"]}
    ph.nac_params = params
    dm = ph.dynamical_matrix
    Z, eps, f = np.array(dm.born), np.array(dm.dielectric_constant), c["factor"]
    viol, obs = [], {"born_layout_" + bkind: 1}

    def bad(kind, msg, **kw):
        if len(viol) < 8:
            viol.append(dict(kind=kind, msg=msg, method=c["method"], full=c["full"], **kw))

    try:
        Zh, eh = nacgen.group_average_born_eps(pr, Zraw, eraw)
    except models.SpglibFailed:
        return {"skip": "spglib none"}
    obs["n_symmetrise"] = 1
    if np.abs(Z - Zh).max() > 1e-9 * np.abs(Zraw).max() or np.abs(eps - eh).max() > 1e-9 * np.abs(eraw).max():
        bad("symmetrise_born_eps", "stored (Z, eps) differ from the harness group average: dZ=%.3e deps=%.3e" % (np.abs(Z - Zh).max(), np.abs(eps - eh).max()))
    if np.abs(Z.sum(axis=0)).max() > 1e-10 * np.abs(Zraw).max():
        bad("neutrality", "symmetrised Born charges are not neutral: %.3e" % np.abs(Z.sum(axis=0)).max())
    want_f = c["factor"] * 4 * np.pi / pr.volume  # DynamicalMatrixNAC.nac_factor is documented/used as factor * 4 pi / V
    if abs(dm.nac_factor - want_f) > 1e-13 * want_f:
        bad("factor", "nac_factor stored %.15g != factor*4pi/V = %.15g" % (dm.nac_factor, want_f))
    V = pr.volume
    m = np.array(pr.masses)
    rec = np.linalg.inv(pr.cell)  # columns: reciprocal basis
    ph0.dynamical_matrix.run([0, 0, 0])
    D0 = np.array(ph0.dynamical_matrix.dynamical_matrix)
    dds = nacgen.dd_scale(pr, {"born": Z, "dielectric": eps, "factor": f})
    fscale = np.abs(fc).max() / m.min()
    maxterm = 0.0
    dirs = [rng.standard_normal(3) for _ in range(4)] + [np.array([1.0, 0, 0]), np.array([0, 1.0, 1.0]), np.array([1.0, 1.0, 1.0]), np.array([0, 0, 1.0])]
    for qd in dirs:
        n_cart = rec @ qd
        T = nac_term(n_cart, Z, eps, V, f, m)
        maxterm = max(maxterm, np.abs(T).max())
        tolz = max((1e-9 if c["method"] == "wang" else 1e-7) * max(np.abs(T).max(), dds * 1e-3), 1e-13 * np.abs(D0).max())  # floor: round-off of D itself
        for sfac in (1.0, 1e-3, 1e3):
            if np.linalg.norm(n_cart * sfac) < 1e-4:
                # phonopy takes a direction shorter than Q_DIRECTION_TOLERANCE = 1e-5 (Cartesian, 1/Angstrom) as "no direction" - its documented
                # notion of a zero vector; a random direction that happens to be short, scaled by 1e-3, falls below it (thorough sweep, seed 0)
                obs["n_gamma_dir_below_zero_tolerance"] = obs.get("n_gamma_dir_below_zero_tolerance", 0) + 1
                continue
            dm.run([0, 0, 0], q_direction=relayout(qd * sfac, lrng)[0])
            D = np.array(dm.dynamical_matrix)
            e = float(np.abs(D - D0 - T).max())
            obs["n_gamma_dir"] = obs.get("n_gamma_dir", 0) + 1
            if not e <= tolz:
                bad("gamma_limit", "D(Gamma;n)-D0-formula = %.3e (tol %.3e, term %.3e) for q_direction=%s scaled by %g" % (e, tolz, np.abs(T).max(), np.round(qd, 4).tolist(), sfac),
                    scaled=sfac)
                break
        # through run_qpoints(nac_q_direction=...)
        ph.run_qpoints([[0, 0, 0]], with_dynamical_matrices=True, nac_q_direction=relayout(qd, lrng)[0])
        D = np.array(ph.get_qpoints_dict()["dynamical_matrices"][0])
        e = float(np.abs(D - D0 - T).max())
        obs["n_gamma_dir_qpoints"] = obs.get("n_gamma_dir_qpoints", 0) + 1
        if not e <= tolz:
            bad("gamma_limit_run_qpoints", "run_qpoints(nac_q_direction): D-D0-formula = %.3e (tol %.3e)" % (e, tolz))
    # a request of several q-points with the exact zone centre somewhere in the middle and NO direction: no non-analytical term there (D = D0),
    # and every other entry equals the single-q answer - whatever came before it in the list and however the list is split among threads
    qb = [rng.uniform(-0.5, 0.5, 3) for _ in range(int(rng.integers(5, 14)))]
    for pos_ in sorted(set(rng.integers(1, len(qb), 3).tolist())):
        qb.insert(pos_, np.zeros(3))
    ph.run_qpoints(relayout(np.array(qb), lrng)[0], with_dynamical_matrices=True)
    Db = np.array(ph.get_qpoints_dict()["dynamical_matrices"])
    for k_, q_ in enumerate(qb):
        obs["n_batch_without_direction"] = obs.get("n_batch_without_direction", 0) + 1
        if not np.any(q_):
            e = float(np.abs(Db[k_] - D0).max())
            if not e <= max(1e-12 * np.abs(D0).max(), 1e-13 * dds):
                bad("gamma_without_direction", "request of %d q-points without a direction: entry %d (the exact zone centre) differs from the uncorrected matrix by %.3e (dipole-dipole scale %.3e)" % (
                    len(qb), k_, e, dds), entry=k_, n_qpoints=len(qb))
        else:
            dm.run(q_)
            e = float(np.abs(Db[k_] - np.array(dm.dynamical_matrix)).max())
            if not e <= 1e-10 * max(fscale, dds):
                bad("batch_vs_single", "request of %d q-points: entry %d differs from the single-q answer by %.3e" % (len(qb), k_, e), entry=k_, n_qpoints=len(qb))
    # the same kind of request WITH a direction: the zone-centre entries get the limit along n (whatever q-point the same thread handled just
    # before), all other entries are what they are without a direction
    nd = dirs[int(rng.integers(len(dirs)))]
    Tn = nac_term(rec @ nd, Z, eps, V, f, m)
    ph.run_qpoints(relayout(np.array(qb), lrng)[0], with_dynamical_matrices=True, nac_q_direction=nd)
    Dbn = np.array(ph.get_qpoints_dict()["dynamical_matrices"])
    toln = max((1e-9 if c["method"] == "wang" else 1e-7) * max(np.abs(Tn).max(), dds * 1e-3), 1e-13 * np.abs(D0).max())
    for k_, q_ in enumerate(qb):
        obs["n_batch_with_direction"] = obs.get("n_batch_with_direction", 0) + 1
        if not np.any(q_):
            e = float(np.abs(Dbn[k_] - D0 - Tn).max())
            if not e <= toln:
                bad("gamma_limit_in_batch", "request of %d q-points with nac_q_direction=%s: entry %d (the zone centre, preceded by q=%s) differs from D0 + formula by %.3e (tol %.3e, term %.3e)" % (
                    len(qb), np.round(nd, 4).tolist(), k_, np.round(qb[k_ - 1], 3).tolist() if k_ else None, e, toln, np.abs(Tn).max()), entry=k_, n_qpoints=len(qb))
        else:
            e = float(np.abs(Dbn[k_] - Db[k_]).max())
            if not e <= 1e-10 * max(fscale, dds):
                bad("batch_vs_single", "request of %d q-points: entry %d (q != 0) changes by %.3e when a direction for the zone centre is given" % (len(qb), k_, e), entry=k_, n_qpoints=len(qb))
    # commensurate q != 0
    M = np.rint(sc.cell @ np.linalg.inv(pr.cell)).astype(int)
    comm = [q for q in commensurate_q(M) if np.abs(q - np.rint(q)).max() > 1e-8]
    for q in comm[:24]:
        if c["method"] == "gonze":
            qq, nties = nacgen.bz_reduce(q, pr.cell, near=True)
            tol = 1e-8 * max(fscale, dds) if nties == 1 else nacgen.gl_offzone_tolerance(pr, {"born": Z, "dielectric": eps, "factor": f}, fscale)[0]
            obs["gonze_unique_bz" if nties == 1 else "gonze_tied_bz"] = obs.get("gonze_unique_bz" if nties == 1 else "gonze_tied_bz", 0) + 1
        else:
            qq = q + rng.integers(-1, 2, 3)
            tol = 1e-12 * max(fscale, dds)
        dm.run(qq)
        D = np.array(dm.dynamical_matrix)
        ph0.dynamical_matrix.run(qq)
        Dp = np.array(ph0.dynamical_matrix.dynamical_matrix)
        e = float(np.abs(D - Dp).max())
        obs["n_commensurate"] = obs.get("n_commensurate", 0) + 1
        if not e <= tol:
            bad("commensurate_noop", "NAC changes D by %.3e (tol %.3e) at commensurate q=%s" % (e, tol, np.round(qq, 4).tolist()))
            break
    # zero Born charges: no-op everywhere
    phz, _ = setup.build_phonopy(dict(c, pmat=pm))
    phz.force_constants = fcin.copy()
    phz.nac_params = {"born": np.zeros((nat, 3, 3)), "dielectric": eraw.copy(), "factor": c["factor"], "method": c["method"]}
    for q, qd in [(rng.uniform(-0.5, 0.5, 3), None), (rng.uniform(-1.5, 1.5, 3), None), (np.zeros(3), rng.standard_normal(3)), (np.array([0.5, 0, 0]), None)]:
        if qd is None:
            phz.dynamical_matrix.run(q)
        else:
            phz.dynamical_matrix.run(q, q_direction=qd)
        Dz = np.array(phz.dynamical_matrix.dynamical_matrix)
        ph0.dynamical_matrix.run(q)
        Dp = np.array(ph0.dynamical_matrix.dynamical_matrix)
        e = float(np.abs(Dz - Dp).max())
        obs["n_zero_charge"] = obs.get("n_zero_charge", 0) + 1
        if not e <= (1e-12 if c["method"] == "wang" else 1e-9) * fscale:
            bad("zero_charge_noop", "zero Born charges change D by %.3e (scale %.3e) at q=%s dir=%s" % (e, fscale, np.round(q, 4).tolist(), None if qd is None else np.round(qd, 3).tolist()))
    # the parameters are set again on the SAME dynamical-matrix object (public nac_params setter) after it has been used: it must then answer
    # for the new Z, eps and factor - reference: a fresh Phonopy object given the new parameters; plus "zero Born charges set again -> no-op"
    Z2 = Zh * 0.6 + 0.3 * np.array([np.eye(3) * (1 if i % 2 == 0 else -1) for i in range(nat)])
    Z2 = Z2 - Z2.mean(axis=0)
    try:
        Z2, e2 = nacgen.group_average_born_eps(pr, Z2, eh * 1.7 + 0.4 * np.eye(3))
    except models.SpglibFailed:
        Z2 = None
    if Z2 is not None:
        p2 = {"born": Z2.copy(), "dielectric": e2.copy(), "factor": c["factor"] * 0.5, "method": c["method"]}
        phn, _ = setup.build_phonopy(dict(c, pmat=pm))
        phn.force_constants = fcin.copy()
        phn.nac_params = dict(p2)
        dm.nac_params = dict(p2)
        for q, qd in [(np.zeros(3), dirs[0]), (rng.uniform(-0.5, 0.5, 3), None), (np.array([0.5, 0, 0]), None)]:
            if qd is None:
                dm.run(q)
                phn.dynamical_matrix.run(q)
            else:
                dm.run(q, q_direction=qd)
                phn.dynamical_matrix.run(q, q_direction=qd)
            e = float(np.abs(np.array(dm.dynamical_matrix) - np.array(phn.dynamical_matrix.dynamical_matrix)).max())
            obs["n_reassigned"] = obs.get("n_reassigned", 0) + 1
            if not e <= 1e-10 * max(fscale, maxterm):
                bad("reassigned_params_stale", "after nac_params was assigned again on the same dynamical-matrix object, D at q=%s differs from a fresh object with the new parameters by %.3e (scale %.3e)" % (
                    np.round(q, 4).tolist(), e, max(fscale, maxterm)), reassigned=True)
                break
        dm.nac_params = {"born": np.zeros((nat, 3, 3)), "dielectric": e2.copy(), "factor": c["factor"], "method": c["method"]}
        qz = rng.uniform(-0.5, 0.5, 3)
        dm.run(qz)
        ph0.dynamical_matrix.run(qz)
        e = float(np.abs(np.array(dm.dynamical_matrix) - np.array(ph0.dynamical_matrix.dynamical_matrix)).max())
        if not e <= (1e-12 if c["method"] == "wang" else 1e-9) * fscale:
            bad("zero_charge_noop", "zero Born charges assigned again on a used dynamical-matrix object change D by %.3e (scale %.3e)" % (e, fscale), reassigned=True)
    N = len(sc) // len(pr)
    obs["method_" + c["method"]] = 1
    key = "%s|%s|%s|%s|%s" % (c["crystal"]["name"], c["smat"], c["pmat"], c["method"], c["full"])
    return {"viol": viol, "nontrivial": bool(N > 1 and maxterm > 1e-6 * fscale), "key": key, "obs": obs,
            "evals": sum(v for k, v in obs.items() if k.startswith("n_")),
            "sample": {"crystal": c["crystal"], "smat": c["smat"], "pmat": pm, "method": c["method"], "full": c["full"], "factor": c["factor"], "n_commensurate": len(comm),
                       "max_nac_term": maxterm, "fc_scale": fscale}}


def summarize(results, obs, tier):
    inc = []
    for k in ("n_gamma_dir", "n_commensurate", "n_zero_charge", "n_symmetrise", "method_wang", "method_gonze"):
        if obs.get(k, 0) == 0:
            inc.append("%s never exercised" % k)
    return {}, inc
