"""C09 - symmetry-reduced mesh sampling equals full mesh sampling.

Contract on GridPoints (always on: weights are the multiplicities of the mapping table and sum to the number of grid points)
+ dedicated driver: documented-grid oracle built by the harness, orbit test under the reciprocal point group, exact invariant
test functions summed over ir-points vs the full documented grid, and phonon-level sums with mesh symmetry on vs off.
"""

from __future__ import annotations

import itertools

import numpy as np

PROP = "C09"
LEVEL = "exploration"
VARIANTS = ("omp",)
CASE_TIMEOUT = 1200
RULE = ("kind grid: primitive cells of all lattice systems (zoo) x meshes from {1..6}^3 (incl. anisotropic ones that break lattice equivalence) x shift "
        "(none | all half-shift combinations | arbitrary 0.25/0.1/0.37 | integer) x Gamma-centred/Monkhorst-Pack x time reversal on/off x fit_in_BZ x mesh symmetry on/off; "
        "oracles: weights sum, documented grid q=(i+s)/n (+1/2 for even n in MP), orbit test on the mapping table, weighted sums of exactly invariant "
        "G-periodic test functions vs the full grid. kind phonon: symmetric pair-model crystal, run_mesh/IterMesh with symmetry on vs off: thermal properties, "
        "smearing DOS, moments, mean of test functions of frequencies; non-trivial = mesh with >1 point and (grid) a point group with >1 operation or a shift; "
        "distinct = full parameter tuple; "
        "additions of rounds 6-8: moments of orders 0-2 over frequency windows and the projected moment; dense meshes on triclinic/monoclinic/orthorhombic cells (1099-4631 irreducible points); objects built with is_symmetry=False holding force constants less symmetric than the positions")
ASSUMPTIONS = [
    "point group of the primitive cell from the harness' own spglib call; reciprocal action q -> (W^-1)^T q",
    "tetrahedron DOS is deliberately not compared (its tetrahedra are not point-group invariant; the statement names smearing)",
]
MIN_NONTRIVIAL = {"quick": 300, "thorough": 2500}

CELLS = ["sc", "fcc", "bcc", "hcp", "rhomb_bi", "rutile", "betasn", "ortho_p", "ortho_c", "ortho_a", "mono_p", "mono_c", "tric2", "wurtzite", "rocksalt", "ortho_f", "ortho_i", "zincblende"]


def gen_cases(tier, seed):
    rng = np.random.default_rng([seed, 9])
    cases = []
    n = 40 if tier == "quick" else 300
    halfs = [list(p) for p in itertools.product((0, 0.5), repeat=3)]
    for b in range(n):
        name = CELLS[b % len(CELLS)]
        sub = []
        for _ in range(12):
            if rng.integers(3) == 0:
                k = int(rng.integers(1, 7))
                mesh = [k, k, k]
            else:
                mesh = [int(v) for v in rng.integers(1, 7, 3)]
            sk = rng.integers(6)
            if sk == 0:
                shift = None
            elif sk in (1, 2):
                shift = halfs[rng.integers(8)]
            elif sk == 3:
                shift = [[0.25, 0.25, 0.25], [0.1, 0.0, 0.0], [0.37, 0.12, 0.0], [0.25, 0.5, 0.0]][rng.integers(4)]
            elif sk == 4:
                shift = [[1, 0, 0], [1, 1, 1], [0.5, 1, 0], [-1, 0.5, 0]][rng.integers(4)]
            else:
                shift = [0, 0, 0]
            sub.append({"mesh": mesh, "shift": shift, "gamma": bool(rng.integers(2)), "tr": bool(rng.integers(4) != 0), "bz": bool(rng.integers(2)),
                        "sym": bool(rng.integers(4) != 0)})
        cases.append({"kind": "grid", "crystal": {"name": name, "rot_seed": int(rng.integers(100)) if rng.integers(2) else None}, "sub": sub, "fseed": int(rng.integers(10 ** 6))})
    # deterministic regression witnesses of the repaired half-shift defect (equivalent axes sampled with different half-shifts; spglib's
    # reduction is wrong for a -> -b without time reversal and for b <-> c): every run observes them
    cases.append({"kind": "grid", "crystal": {"name": "mono_c", "rot_seed": None}, "fseed": 1,
                  "sub": [{"mesh": [5, 5, 4], "shift": [0.5, 0, 0], "gamma": False, "tr": False, "bz": False, "sym": True},
                          {"mesh": [5, 5, 4], "shift": [0.5, 0, 0], "gamma": False, "tr": True, "bz": False, "sym": True}]})
    cases.append({"kind": "grid", "crystal": {"name": "ortho_a", "rot_seed": None}, "fseed": 2,
                  "sub": [{"mesh": [5, 4, 4], "shift": sh, "gamma": g, "tr": tr, "bz": False, "sym": True}
                          for sh in ([0, 0.5, 0], [0, 0, 0.5], [0.5, 0, 0.5], [0.5, 0.5, 0.5]) for tr in (True, False) for g in (False, True)]
                  + [{"mesh": m, "shift": None, "gamma": False, "tr": tr, "bz": False, "sym": True} for m in ([4, 3, 5], [4, 6, 4], [3, 5, 5]) for tr in (True, False)]})
    names = ["sc", "fcc", "bcc", "hcp", "rutile", "rocksalt", "ortho_c", "ortho_a", "mono_c", "mono_p", "tric2", "wurtzite", "rhomb_bi", "zincblende", "betasn", "diamond"]
    for b in range(28 if tier == "quick" else 200):
        name = names[b % len(names)]
        k = int(rng.integers(2, 6))
        mesh = [k, k, k] if rng.integers(2) else [int(v) for v in rng.integers(1, 6, 3)]
        sk = rng.integers(5)
        shift = None if sk == 0 else (halfs[rng.integers(8)] if sk in (1, 2) else ([[0.25, 0.25, 0.25], [0.1, 0.0, 0.0], [0.37, 0.12, 0.0]][rng.integers(3)] if sk == 3 else [0.5, 0.5, 0.5]))
        cases.append({"kind": "phonon", "crystal": {"name": name, "order": ["asis", "random"][rng.integers(2)], "order_seed": int(rng.integers(100))},
                      "mesh": mesh if rng.integers(6) else float(rng.uniform(8, 20)), "shift": shift, "gamma": bool(rng.integers(2)), "tr": bool(rng.integers(4) != 0),
                      "iter": bool(rng.integers(4) == 0), "_cost": 4,
                      "nac": [None, "wang", "gonze"][rng.integers(3)] if name in ("rocksalt", "wurtzite", "zincblende", "rutile", "tric2") else None, "nseed": int(rng.integers(10 ** 6))})
    # objects built with is_symmetry=False whose force constants are LESS symmetric than the bare positions (fitted from noisy forces, effective
    # Hamiltonians, ...): the mesh may then only be reduced by what such an object still assumes (time reversal)
    for b in range(6 if tier == "quick" else 40):
        name = ["sc", "fcc", "rocksalt", "hcp", "rutile", "cscl", "bcc", "zincblende"][b % 8]
        k = int(rng.integers(2, 5))
        cases.append({"kind": "phonon", "crystal": {"name": name, "order": "asis", "order_seed": 0}, "mesh": [k, int(rng.integers(2, 5)), k] if b % 2 else [k, k, k],
                      "shift": [None, [0.5, 0.5, 0.5], [0.5, 0, 0]][b % 3], "gamma": bool(b % 2), "tr": bool(b % 4 != 3), "iter": bool(b % 5 == 4), "_cost": 4, "nac": None, "nseed": 0,
                      "nosym": True, "fcseed": int(rng.integers(10 ** 6))})
    # dense meshes on low-symmetry crystals: more than a thousand IRREDUCIBLE q-points with unequal weights (kernels that consume the weights in
    # blocks only show their block handling there)
    for b in range(3 if tier == "quick" else 16):
        name, mesh = [("tric2", [13, 13, 13]), ("mono_p", [17, 13, 11]), ("tric2", [21, 21, 21]), ("ortho_c", [21, 19, 17]), ("tric2", [15, 14, 11]), ("mono_c", [15, 15, 13])][b % 6]
        cases.append({"kind": "phonon", "crystal": {"name": name, "order": "asis", "order_seed": 0}, "mesh": mesh, "shift": [None, [0.5, 0.5, 0.5]][b % 2], "gamma": bool(b % 3 == 0),
                      "tr": True, "iter": False, "_cost": 60, "nac": None, "nseed": 0, "dense": True})
    # Wang NAC (not periodic in q) on the non-orthogonal polar lattices: every run has several of these, even and odd meshes, Gamma-centred or not
    for b in range(9 if tier == "quick" else 60):
        name = ["wurtzite", "rocksalt", "zincblende"][b % 3]
        k = int(rng.integers(2, 6))
        plain = bool(b % 3 != 2)  # two thirds: odd Gamma-centred unshifted meshes (few or no grid points on the zone boundary, see the tie rule in run_case)
        if plain:
            k = [3, 5][int(rng.integers(2))]
        cases.append({"kind": "phonon", "crystal": {"name": name, "order": "asis", "order_seed": 0}, "mesh": [k, k, [3, 5][int(rng.integers(2))] if plain else int(rng.integers(2, 5))] if name == "wurtzite" else [k, k, k],
                      "shift": None if plain else [None, None, [0.5, 0.5, 0.5], [0, 0, 0.5]][int(rng.integers(4))], "gamma": True if plain else bool(rng.integers(2)), "tr": bool(rng.integers(4) != 0), "iter": False, "_cost": 4,
                      "nac": "wang", "nseed": int(rng.integers(10 ** 6))})
    return cases


def point_group(cd):
    import spglib
    from vlib.gen import setup

    ds = spglib.get_symmetry_dataset((np.array(cd["cell"]), np.array(cd["positions"]), setup.numbers_of(cd["symbols"])), symprec=1e-5)
    rots = np.unique(np.array(ds.rotations), axis=0)
    return rots


def documented_grid(mesh, shift, gamma):
    """q = (i + s)/n for Gamma-centred; Monkhorst-Pack adds 1/2 for even n. Returned mod 1 as exact fractions (numerators over 2n... floats)."""
    mesh = np.array(mesh, int)
    s = np.zeros(3) if shift is None else np.array(shift, float)
    base = s.copy()
    if not gamma:
        base = base + np.where(mesh % 2 == 0, 0.5, 0.0)
    pts = np.array(list(itertools.product(*[range(m) for m in mesh])), float)
    q = (pts + base) / mesh
    return q - np.floor(q + 1e-12)


def _canon(q, dec=9):
    q = np.array(q, float)
    q = q - np.floor(q + 1e-10)
    q = np.where(q > 1 - 1e-9, 0.0, q)
    return np.round(q, dec)


def _setkey(qs):
    return sorted(map(tuple, _canon(qs)))


def make_test_function(recip_ops, rng):
    """Exactly invariant, G-periodic scalar function of q: sum over the group of cos/sin of integer-vector phases."""
    a = rng.integers(-2, 3, size=(3, 3))
    a[0] = [1, 0, 0] if not a[0].any() else a[0]
    coef = rng.uniform(0.5, 1.5, 3)

    def f(q):
        q = np.atleast_2d(q)
        out = np.zeros(len(q))
        for R in recip_ops:
            rq = q @ np.array(R).T
            out += coef[0] * np.cos(2 * np.pi * rq @ a[0]) + coef[1] * np.sin(2 * np.pi * rq @ a[1]) + coef[2] * np.cos(2 * np.pi * rq @ a[2]) ** 2
        return out / len(recip_ops)

    return f


def run_case(c):
    from vlib.gen import crystals, models, setup

    viol, obs, keys = [], {}, []

    def bad(kind, msg, **kw):
        if len(viol) < 8:
            viol.append(dict(kind=kind, msg=msg, **kw))

    if c["kind"] == "grid":
        from phonopy.structure.cells import get_primitive, get_supercell
        from phonopy.structure.grid_points import GridPoints

        cd = crystals.make(**c["crystal"])
        unit = crystals.to_atoms(cd)
        pm = cd["pmat"]
        prim = get_primitive(get_supercell(unit, np.eye(3, dtype=int)), pm) if pm != "P" else unit
        pcd = {"cell": np.array(prim.cell).tolist(), "positions": np.array(prim.scaled_positions).tolist(), "symbols": list(prim.symbols)}
        rots = point_group(pcd)  # direct space, x' = W x
        rec_lat = np.linalg.inv(np.array(prim.cell))  # column vectors
        rng = np.random.default_rng(c["fseed"])
        for s in c["sub"]:
            mesh, shift, gamma, tr, bz, sym = s["mesh"], s["shift"], s["gamma"], s["tr"], s["bz"], s["sym"]
            try:
                gp = GridPoints(mesh, rec_lat, q_mesh_shift=shift, is_gamma_center=gamma, is_time_reversal=tr, fit_in_BZ=bz, rotations=rots, is_mesh_symmetry=sym)
            except Exception as e:
                bad("gridpoints_exception", "GridPoints raised %r" % (e,), mesh=mesh, shift=shift)
                continue
            obs["gridpoints"] = obs.get("gridpoints", 0) + 1
            nfull = int(np.prod(mesh))
            w = np.array(gp.weights)
            q_ir = np.array(gp.qpoints)
            sh = np.zeros(3) if shift is None else np.array(shift, float)
            arbitrary = bool((np.abs(sh * 2 - np.rint(sh * 2)) > 0.01).any())
            isb_int = np.array(gp._is_shift, int)
            breaks = bool(any((((np.array(W).T @ isb_int) - isb_int) % 2 != 0).any() for W in rots)) and not arbitrary
            feat = dict(mesh=mesh, shift=shift, gamma=gamma, tr=tr, bz=bz, sym=sym, arbitrary_shift=arbitrary, half_shift_breaks_point_group=breaks)
            obs["half_shift_breaks_point_group"] = obs.get("half_shift_breaks_point_group", 0) + int(breaks)
            if int(w.sum()) != nfull:
                bad("weights_sum", "weights sum %d != %d grid points" % (int(w.sum()), nfull), **feat)
            doc = documented_grid(mesh, shift, gamma)
            dockeys = set(_setkey(doc))
            if len(dockeys) != nfull:
                return {"error": "harness: documented grid has duplicates"}
            # every irreducible q-point belongs to the documented grid
            notin = [q for q in _canon(q_ir) if tuple(q) not in dockeys]
            if notin:
                bad("not_documented_grid", "%d of %d irreducible q-points are not on the documented grid, e.g. %s" % (len(notin), len(q_ir), np.array(notin[0]).tolist()), **feat)
            # "image under a reciprocal point-group operation or time reversal": -R is always admissible (the statement does not tie it
            # to the is_time_reversal flag, and every function of the frequencies is even in q)
            recip = [np.rint(np.linalg.inv(W).T).astype(int) for W in rots]
            recip = recip + [-R for R in recip]
            if not arbitrary:
                # the full set of grid points (address + is_shift/2)/mesh must be the documented grid; orbit test on the mapping table
                isb = np.array(gp._is_shift, float) * 0.5
                allq = (np.array(gp.grid_address, float) + isb) / np.array(mesh)
                if set(_setkey(allq)) != dockeys:
                    bad("not_documented_grid", "the set of all grid points differs from the documented grid", **feat)
                gm = np.array(gp.grid_mapping_table)
                ok = True
                for g in range(nfull):
                    r = gm[g]
                    if r == g:
                        continue
                    img = np.array([R @ allq[r] for R in recip])
                    d = img - allq[g]
                    d -= np.rint(d)
                    if np.abs(d).max(axis=1).min() > 1e-9:
                        ok = False
                        bad("orbit", "grid point %s is not the image of its representative %s under any reciprocal operation or time reversal" % (
                            np.round(allq[g], 5).tolist(), np.round(allq[r], 5).tolist()), **feat)
                        break
                obs["orbit_tests"] = obs.get("orbit_tests", 0) + 1
            # invariant test functions: weighted sum over ir points == sum over the documented full grid
            for _ in range(2):
                f = make_test_function(recip, rng)
                lhs = float((w * f(q_ir)).sum())
                rhs = float(f(doc).sum())
                obs["sum_tests"] = obs.get("sum_tests", 0) + 1
                if abs(lhs - rhs) > 1e-9 * max(1.0, nfull):
                    bad("reduced_sum", "sum_ir w f(q) = %.12g but the full documented grid gives %.12g" % (lhs, rhs), **feat)
                    break
            if nfull > 1 and (len(rots) > 1 or shift is not None):
                keys.append("grid|%s|%s|%s|%s|%s|%s|%s" % (c["crystal"]["name"], mesh, shift, gamma, tr, bz, sym))
            obs["shift_arbitrary" if arbitrary else ("shift_none" if shift is None else "shift_half_or_integer")] = obs.get("shift_arbitrary" if arbitrary else ("shift_none" if shift is None else "shift_half_or_integer"), 0) + 1
            obs["reduced_cases"] = obs.get("reduced_cases", 0) + int(len(w) < nfull)
        return {"viol": viol, "nontrivial": bool(keys), "keys": keys, "evals": len(c["sub"]), "obs": obs,
                "sample": {"kind": "grid", "crystal": c["crystal"], "n_pointgroup": len(rots), "first": c["sub"][:2]}}

    # ---- phonon level
    case = {"crystal": c["crystal"], "smat": np.diag([2, 2, 2]).tolist()}
    if c.get("nosym"):
        case["is_symmetry"] = False
    ph, cd = setup.build_phonopy(case)
    if cd["pmat"] != "P":
        ph, cd = setup.build_phonopy(dict(case, pmat=cd["pmat"]))
    if len(ph.supercell) > 70:
        ph, cd = setup.build_phonopy(dict(case, smat=np.eye(3, dtype=int).tolist(), pmat=cd["pmat"] if cd["pmat"] != "P" else None))
    sc = ph.supercell
    fc = models.pair_fc(sc.cell, sc.scaled_positions, sc.symbols, cutoff=4.8)
    if c.get("nosym"):
        # periodic, permutation symmetric, obeying the sum rule - and WITHOUT the point symmetry of the positions
        fc = fc + 0.3 * np.abs(fc).max() * models.random_periodic_fc(sc.cell, sc.scaled_positions, ph.primitive.cell, np.random.default_rng(c["fcseed"]), permutation_symmetric=True, asr=True) / max(
            np.abs(models.random_periodic_fc(sc.cell, sc.scaled_positions, ph.primitive.cell, np.random.default_rng(c["fcseed"]), permutation_symmetric=True, asr=True)).max(), 1e-300)
        obs["phonon_is_symmetry_false_less_symmetric_fc"] = 1
    if np.abs(fc).max() < 1e-8:
        return {"skip": "no interaction"}
    ph.force_constants = fc
    if c.get("nac"):
        # (the Wang dynamical matrix is not periodic in q: reduced and full mesh must be evaluated at the same first-zone images)
        from vlib.gen import nac as nacgen

        ph.nac_params = nacgen.random_nac(ph, np.random.default_rng(c.get("nseed", 0)), method=c["nac"])
    obs["phonon_nac_" + str(c.get("nac"))] = 1
    mesh, shift, gamma, tr = c["mesh"], c["shift"], c["gamma"], c["tr"]
    res = {}
    for sym in (True, False):
        if c["iter"]:
            ph.init_mesh(mesh, shift=shift, is_time_reversal=tr, is_mesh_symmetry=sym, is_gamma_center=gamma, use_iter_mesh=True, with_eigenvectors=True)
            fr, ww = [], []
            m = ph.mesh
            for i, (f_, _) in enumerate(m):
                fr.append(np.array(f_))
            fr = np.array(fr)
            ww = np.array(m.weights)
            out = {"n_ir": len(ww), "wsum": int(ww.sum()), "mean_f2": float((ww[:, None] * fr ** 2).sum() / ww.sum()),
                   "mean_exp": float((ww[:, None] * np.exp(-np.abs(fr))).sum() / ww.sum())}
        else:
            ph.run_mesh(mesh, shift=shift, is_time_reversal=tr, is_mesh_symmetry=sym, is_gamma_center=gamma)
            md = ph.get_mesh_dict()
            fr, ww = np.array(md["frequencies"]), np.array(md["weights"])
            out = {"n_ir": len(ww), "wsum": int(ww.sum()), "mean_f2": float((ww[:, None] * fr ** 2).sum() / ww.sum()),
                   "mean_exp": float((ww[:, None] * np.exp(-np.abs(fr))).sum() / ww.sum())}
            ph.run_thermal_properties(t_min=0, t_max=600, t_step=200, cutoff_frequency=0.01)
            tp = ph.get_thermal_properties_dict()
            out["F"], out["S"], out["Cv"] = [np.array(tp[k]).tolist() for k in ("free_energy", "entropy", "heat_capacity")]
            fmax = float(np.abs(fr).max())
            ph.run_total_dos(sigma=0.05 * fmax + 0.01, freq_min=-0.1 * fmax, freq_max=1.2 * fmax, freq_pitch=fmax / 40, use_tetrahedron_method=False)
            out["dos"] = np.array(ph.get_total_dos_dict()["total_dos"]).tolist()
            ph.run_moment(order=2)
            out["moment2"] = float(ph.get_moment())
            # moments of a frequency window (FMIN/FMAX): states are left out, and the normalisation has to leave them out with their weights. The window
            # edges sit in the middle of the widest gap of the spectrum near 0.3 / 0.75 of the top frequency (same edges for both runs), so that no
            # frequency is within rounding of an edge
            if "win" not in res:
                allf = np.unique(np.round(np.abs(fr).ravel(), 9))

                def edge(lo, hi):
                    cand = allf[(allf > lo * fmax) & (allf < hi * fmax)]
                    if len(cand) < 2:
                        return 0.5 * (lo + hi) * fmax
                    k_ = int(np.argmax(np.diff(cand)))
                    return float(0.5 * (cand[k_] + cand[k_ + 1]))

                res["win"] = (edge(0.15, 0.45), edge(0.6, 0.9))
            w_lo, w_hi = res["win"]
            for order in (0, 1, 2):
                for nm, kw in (("lo", {"freq_min": w_lo}), ("hi", {"freq_max": w_hi}), ("band", {"freq_min": w_lo, "freq_max": w_hi})):
                    try:
                        ph.run_moment(order=order, **kw)
                        out["moment%d_window_%s" % (order, nm)] = float(ph.get_moment())
                    except ZeroDivisionError:  # no state in the window (coarse meshes): refused in both runs or in neither
                        out["moment%d_window_%s" % (order, nm)] = float("nan")
                        obs["moment_window_empty"] = obs.get("moment_window_empty", 0) + 1
            try:
                ph.run_moment(order=1, is_projection=True, freq_min=w_lo, freq_max=w_hi)
                out["moment1_projected_window"] = np.array(ph.get_moment()).tolist()
            except ZeroDivisionError:
                out["moment1_projected_window"] = [float("nan")] * len(ph.primitive)
            obs["moment_windows"] = obs.get("moment_windows", 0) + 10
        res[sym] = out
    a, b = res[True], res[False]
    res.pop("win", None)
    if c.get("nac") == "wang":
        # the Wang term is not periodic in q: for a grid point ON the Brillouin-zone boundary the tied first-zone images give different
        # frequencies, so "the frequencies at that q" are not defined and neither sum is the reference; such meshes are not compared
        from vlib.gen import nac as nacgen_

        ties = 0
        for q_ in np.array(ph.mesh.qpoints):
            ties += int(nacgen_.bz_reduce(q_, ph.primitive.cell)[1] > 1)
        if ties:
            obs["wang_meshes_with_zone_boundary_points_skipped"] = 1
            return {"viol": viol, "nontrivial": False, "key": "ph|%s|%s|%s|wang-ties" % (c["crystal"]["name"], mesh, shift), "obs": obs, "evals": 0,
                    "sample": {"kind": "phonon", "crystal": c["crystal"], "mesh": mesh, "skipped": "zone-boundary grid points with Wang NAC"}}
        obs["wang_meshes_compared"] = 1
    feat = dict(mesh=mesh, shift=shift, gamma=gamma, tr=tr, iter=c["iter"], nac=c.get("nac"),
                arbitrary_shift=bool(shift is not None and (np.abs(np.array(shift) * 2 - np.rint(np.array(shift) * 2)) > 0.01).any()))
    for k in a:
        if k in ("n_ir",):
            continue
        x, y = np.array(a[k], float), np.array(b[k], float)
        fin = np.isfinite(x) & np.isfinite(y)
        if x.shape != y.shape or (np.isfinite(x) != np.isfinite(y)).any():
            bad("sym_on_off", "quantity %s has different shape/finite pattern with mesh symmetry on vs off" % k, quantity=k, **feat)
            continue
        sc_ = max(np.abs(y[fin]).max() if fin.any() else 0, 1e-12)
        e = np.abs(x[fin] - y[fin]).max() if fin.any() else 0
        obs["n_quantity_compared"] = obs.get("n_quantity_compared", 0) + 1
        # Gonze-Lee: the reciprocal-space sum is cut at exp(-...) = 1e-10 and is neither exactly G-periodic nor exactly invariant, so symmetry
        # images agree only to the reciprocal-sum precision (observed 1e-9..1e-7 relative on the unchanged tree); Wang and no NAC are exact
        rel = 2e-5 if c.get("nac") == "gonze" else 1e-9
        if e > rel * sc_:
            bad("sym_on_off", "%s differs with mesh symmetry on vs off by %.3e (scale %.3e)" % (k, e, sc_), quantity=k, **feat)
    obs["phonon_reduced"] = int(a["n_ir"] < b["n_ir"])
    obs["phonon_more_than_1024_irreducible_points"] = int(a["n_ir"] > 1024)
    obs["phonon_more_than_4096_irreducible_points"] = int(a["n_ir"] > 4096)
    obs["phonon_iter"] = int(c["iter"])
    obs["phonon_arbitrary_shift"] = int(feat["arbitrary_shift"])
    key = "ph|%s|%s|%s|%s|%s|%s" % (c["crystal"]["name"], mesh, shift, gamma, tr, c["iter"])
    return {"viol": viol, "nontrivial": bool(b["wsum"] > 1), "key": key, "obs": obs, "evals": 2,
            "sample": {"kind": "phonon", "crystal": c["crystal"], "mesh": mesh, "shift": shift, "gamma": gamma, "tr": tr, "iter": c["iter"], "n_ir_sym": a["n_ir"], "n_ir_nosym": b["n_ir"]}}


def summarize(results, obs, tier):
    inc = []
    ce = obs.get("contracts", {})
    if ce.get("GridPoints.__init__", 0) == 0:
        inc.append("GridPoints contract never evaluated")
    for k in ("orbit_tests", "sum_tests", "reduced_cases", "shift_arbitrary", "shift_half_or_integer", "phonon_reduced", "n_quantity_compared"):
        if obs.get(k, 0) == 0:
            inc.append("%s never exercised" % k)
    return {"contract_evaluations": ce}, inc
