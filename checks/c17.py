"""C17 - calculator interfaces preserve the crystal and the physical units.

File-boundary round-trip monitor per interface (adapters add only format-prescribed headers / trailing comments and choose
file names; they never touch a numeric or species field the writer produced) + exhaustive table check of the unit sets
by SI re-derivation + end-to-end "same physical crystal in every unit system".
"""

from __future__ import annotations

import os
import re
import shutil
import tempfile

import numpy as np

PROP = "C17"
LEVEL = "exploration"
VARIANTS = ("omp",)
CASE_TIMEOUT = 1200
RULE = ("kind structure: 15 interfaces (cp2k: dependency absent) x cells (triclinic/hexagonal/cubic, species grouped | interleaved | randomly permuted, positions outside [0,1), "
        "rigidly rotated lattice) : write_crystal_structure -> read_crystal_structure and every file of write_supercells_with_displacements; compared: metric tensor, "
        "species with fractional positions modulo 1, atom order (preserved or stable grouping by first appearance); "
        "kind units: all 17 calculator entries (exhaustive): factor, nac_factor, distance_to_A, force_to_eVperA, get_force_constant_conversion_factor vs SI re-derivation; "
        "kind endtoend: one physical crystal (cell, pair-model constants, Born charges) re-expressed in each calculator's units must give the same THz frequencies and thermal properties; "
        "kind forcesets: calculator output (vasprun.xml) with permuted/mismatched atoms must be paired correctly or refused; "
        "non-trivial = >=2 species or >=2 atoms; distinct = (interface, cell description); "
        "additions of rounds 6-8: residual-force (--fz) mode faults; magnetic cells through castep/aims/abacus; kind fleur_input: user inpgen file with &factor/&shift, supercell files written from it read back")
ASSUMPTIONS = [
    "adapters: qe '&system ibrav=0,nat,ntyp /' header; siesta ChemicalSpeciesLabel block; turbomole read with cwd = written directory; fleur '! a1' / 'atoms' trailing comments; crystal: harness parser of the .ext (fort.34) block because the interface's reader parses CRYSTAL output",
    "tolerance from the printed precision measured in each written file",
]
MIN_NONTRIVIAL = {"quick": 80, "thorough": 500}
MODES = ["vasp", "abinit", "qe", "wien2k", "elk", "siesta", "crystal", "dftbp", "turbomole", "aims", "castep", "fleur", "abacus", "lammps", "pwmat"]
ALL_CALCS = [None, "vasp", "abinit", "qe", "wien2k", "elk", "siesta", "cp2k", "crystal", "dftbp", "turbomole", "aims", "castep", "fleur", "abacus", "lammps", "pwmat"]


def gen_cases(tier, seed):
    rng = np.random.default_rng([seed, 17])
    cases = []
    for mode in MAGNETIC_MODES:
        for ci, cell in enumerate(["afm_cr", "afm_nio", "fm_fe_tet"]):
            cases.append({"kind": "structure", "mode": mode, "crystal": {"name": cell, "order": ["asis", "random", "interleave"][(ci + len(cases)) % 3], "order_seed": int(rng.integers(100))},
                          "displaced": bool(ci == 1), "magnetic": True, "_cost": 2})
    for i in range(6 if tier == "quick" else 30):
        cases.append({"kind": "fleur_input", "crystal": {"name": ["rocksalt", "tric3", "rutile", "wurtzite", "cscl", "tric2"][i % 6], "order": ["asis", "interleave"][i % 2], "order_seed": 0},
                      "factor": bool(i % 3 != 2), "shift": bool(i % 3 != 0), "seed": int(rng.integers(10 ** 6)), "_cost": 2})
    cells = ["tric_ilv", "tric3", "tric2", "rutile", "rocksalt", "wurtzite", "perovskite", "mono_p", "zincblende", "fluorite", "hcp"]
    reps = 1 if tier == "quick" else 6
    for mode in MODES:
        for ci, cell in enumerate(cells):
            for r in range(reps):
                cases.append({"kind": "structure", "mode": mode, "crystal": {"name": cell, "order": "asis" if cell == "tric_ilv" else ["asis", "interleave", "random", "grouped"][(ci + r) % 4], "order_seed": int(rng.integers(1000)),
                                                                             "int_shift": bool((ci + r) % 2), "rot_seed": int(rng.integers(100)) if mode in ("vasp", "qe", "aims", "abinit", "castep", "elk") and r % 2 else None},
                              "displaced": bool(ci % 3 == 0), "seed": int(rng.integers(10 ** 6))})
    # the route `phonopy -d` takes: write_supercells_with_displacements (per-atom / per-species data replicated for the supercell) for supercell
    # matrices of every shape: diagonal, triangular, non-triangular, negative entries
    smats = [np.diag([2, 1, 1]).tolist(), [[2, 1, 0], [0, 2, 0], [0, 0, 1]], [[2, 1, 0], [1, 2, 0], [0, 0, 1]], [[0, 1, 1], [1, 0, 1], [1, 1, 0]], [[-1, 1, 1], [1, -1, 1], [1, 1, -1]],
             [[1, 1, 0], [-1, 1, 0], [0, 0, 2]], [[0, 2, 0], [1, 0, 1], [1, 0, -1]], np.diag([1, 2, 2]).tolist()]
    for mode in MODES:
        for r in range(2 if tier == "quick" else 8):
            cases.append({"kind": "dispatch", "mode": mode, "crystal": {"name": ["tric_ilv", "rocksalt", "tric3", "wurtzite", "perovskite"][int(rng.integers(5))],
                                                                           "order": ["asis", "interleave", "random"][int(rng.integers(3))], "order_seed": int(rng.integers(1000))},
                          "smat": smats[int(rng.integers(len(smats)))], "seed": int(rng.integers(10 ** 6)), "_cost": 3})
        # ... and, for every interface and in every run, strongly skewed supercells (a hexagonal cell doubled along b and c; a triclinic one tripled
        # along c): formats that prescribe a reduced or rotated box (LAMMPS tilt factors, ...) have to change the basis there, and the
        # coordinates with it. (Fixed cases: what the random draws above produce shifts whenever a generator is added before them.)
        cases.append({"kind": "dispatch", "mode": mode, "crystal": {"name": "wurtzite", "order": "asis", "order_seed": 0}, "smat": [[1, 0, 0], [0, 2, 0], [0, 0, 2]], "seed": 1, "_cost": 3})
        cases.append({"kind": "dispatch", "mode": mode, "crystal": {"name": "tric3", "order": "interleave", "order_seed": 0}, "smat": [[1, 0, 0], [1, 2, 0], [0, 1, 3]], "seed": 2, "_cost": 3})
    # WIEN2k: case.scf lists positions and forces of one atom per equivalent set only; phonopy reconstructs the forces on all atoms with the
    # symmetry of the displaced supercell - whichever member of a set the output happens to list
    for i in range(3 if tier == "quick" else 12):
        cases.append({"kind": "wien2k_forces", "crystal": {"name": ["cscl", "rocksalt", "zincblende", "fluorite"][i % 4]}, "seed": int(rng.integers(10 ** 6)), "_cost": 30})
    cases.append({"kind": "units"})
    for i, cell in enumerate(["rocksalt", "zincblende", "tric2", "wurtzite"] if tier == "quick" else ["rocksalt", "zincblende", "tric2", "wurtzite", "cscl", "rutile", "perovskite", "tric3"]):
        cases.append({"kind": "endtoend", "crystal": {"name": cell}, "seed": int(rng.integers(10 ** 6)), "_cost": 10})
    for i in range(4 if tier == "quick" else 20):
        cases.append({"kind": "forcesets", "crystal": {"name": ["rocksalt", "tric3", "rutile", "wurtzite"][i % 4], "order": "random", "order_seed": i}, "seed": int(rng.integers(10 ** 6))})
    return cases


# ------------------------------------------------------------------------------------------------ adapters
def species_info(mode, symbols):
    uniq = list(dict.fromkeys(symbols))
    from phonopy.structure.atoms import symbol_map

    if mode == "qe":
        return (None, {s: s + ".UPF" for s in uniq})
    if mode == "wien2k":
        n = len(symbols)
        return (None, [781] * n, [1e-4] * n, [2.0] * n)
    if mode == "elk":
        return (None, [s + ".in" for s in uniq])
    if mode == "siesta":
        return (None, {s: i + 1 for i, s in enumerate(uniq)})
    if mode == "crystal":
        return (None, [symbol_map[s] for s in symbols])
    if mode == "fleur":
        # what read_fleur returns for a file listing the atoms in this order: one species id per atom, in the cell's atom order
        return ([str(symbol_map[s]) for s in symbols], ["title line"])
    if mode == "abacus":
        return (None, {s: s + ".upf" for s in uniq}, {s: s + ".orb" for s in uniq}, None)
    return None


def fleur_info_for(cell):
    """The FLEUR writer repeats each entry of speci N times in the order of the (sorted) output; entries per species in first-appearance order."""
    from phonopy.structure.atoms import symbol_map

    uniq = list(dict.fromkeys(cell.symbols))
    return uniq, [str(symbol_map[s]) for s in uniq]


def parse_crystal_ext(path):
    """Harness parser of the fort.34-like .ext block written by the CRYSTAL interface (Cartesian Angstrom)."""
    from phonopy.structure.atoms import PhonopyAtoms, atom_data

    L = open(path).read().split("\n")
    lat = np.array([[float(x) for x in L[i].split()] for i in (1, 2, 3)])
    nsym = int(L[4].split()[0])
    k = 5 + 4 * nsym
    nat = int(L[k].split()[0])
    nums, pos = [], []
    for i in range(nat):
        t = L[k + 1 + i].split()
        nums.append(int(t[0]) % 100)
        pos.append([float(x) for x in t[1:4]])
    return PhonopyAtoms(cell=lat, positions=pos, symbols=[atom_data[n][1] for n in nums])


def decimals_of(text):
    d = None
    for m in re.findall(r"-?\d+\.(\d+)", text):
        d = len(m) if d is None else min(d, len(m))
    return d if d is not None else 8


def write_read(mode, cell, workdir, name="struct"):
    """Write with the interface, adapt, read with the same interface. Returns (cell read, {file: text}, notes)."""
    from phonopy.interface.calculator import read_crystal_structure, write_crystal_structure

    notes = []
    info = species_info(mode, list(cell.symbols))
    cwd = os.getcwd()
    os.chdir(workdir)
    try:
        write_crystal_structure(name, cell, interface_mode=mode, optional_structure_info=info)
        texts = {}
        for root, _, files in os.walk("."):
            for f in files:
                p = os.path.join(root, f)
                texts[p] = open(p).read()
        target = name
        if mode == "qe":
            uniq = list(dict.fromkeys(cell.symbols))
            txt = open(name).read()
            open(name, "w").write("&system\n  ibrav = 0, nat = %d, ntyp = %d\n/\n" % (len(cell), len(uniq)) + txt)
            notes.append("prepended &system header")
        elif mode == "siesta":
            from phonopy.structure.atoms import symbol_map

            uniq = list(dict.fromkeys(cell.symbols))
            hdr = "NumberOfSpecies %d\n%%block ChemicalSpeciesLabel\n" % len(uniq) + "".join(" %d %d %s\n" % (i + 1, symbol_map[s], s) for i, s in enumerate(uniq)) + "%endblock ChemicalSpeciesLabel\n"
            body = open(name).read()
            open(name, "w").write(hdr + body)
            notes.append("prepended ChemicalSpeciesLabel block")
        elif mode == "turbomole":
            os.chdir(os.path.join(workdir, name))
            target = "control"
            notes.append("read with cwd = written directory")
        elif mode == "fleur":
            lines = open(name).read().split("\n")
            lines[1] = lines[1] + " ! a1"
            # line with the number of atoms: after 3 lattice lines, scale line, factors line, blank line
            for i, ln in enumerate(lines[4:], 4):
                if ln.strip().isdigit():
                    lines[i] = ln + " ! num atoms"
                    break
            open(name, "w").write("\n".join(lines))
            notes.append("appended '! a1' and '! num atoms' comments")
        elif mode == "crystal":
            rc = parse_crystal_ext(name + ".ext")
            notes.append("harness parser of the .ext block (no same-interface reader for inputs)")
            return rc, texts, notes
        try:
            rc, _info = read_crystal_structure(target, interface_mode=mode)
        except SystemExit as e:
            raise RuntimeError("reader called sys.exit(%s)" % (e.code,))
        return rc, texts, notes
    finally:
        os.chdir(cwd)


def dispatcher_info(mode, symbols):
    """optional_structure_info as read_crystal_structure returns it for the unit cell (what `phonopy -d` hands to write_supercells_with_displacements)."""
    from phonopy.structure.atoms import symbol_map

    uniq = list(dict.fromkeys(symbols))
    n = len(symbols)
    if mode == "qe":
        return ("pw.in", {s: s + ".UPF" for s in uniq})
    if mode == "wien2k":
        # per-atom radial-mesh data, made distinguishable per species so that a wrong replication shows
        return ("case.struct", [781 + 2 * uniq.index(s) for s in symbols], [1e-4 * (1 + uniq.index(s)) for s in symbols], [2.0 + 0.1 * uniq.index(s) for s in symbols])
    if mode == "elk":
        return ("elk.in", [s + ".in" for s in uniq])
    if mode == "siesta":
        return ("x.fdf", {s: i + 1 for i, s in enumerate(uniq)})
    if mode == "crystal":
        return ("crystal.o", [symbol_map[s] for s in symbols])
    if mode == "fleur":
        return ("fleur_inpgen", [str(symbol_map[s]) for s in symbols], ["title line"])
    if mode == "abacus":
        return ("STRU", {s: s + ".upf" for s in uniq}, {s: s + ".orb" for s in uniq}, None)
    return ("unitcell",)


def adapt_and_read(mode, path, symbols):
    """Read a structure file that the interface wrote, after the minimal completion an input needs to be readable by the same interface."""
    from phonopy.interface.calculator import read_crystal_structure

    cwd = os.getcwd()
    try:
        if mode == "crystal":
            return parse_crystal_ext(path)
        target = path
        if mode == "qe":
            uniq = list(dict.fromkeys(symbols))
            txt = open(path).read()
            if "&system" not in txt.lower():
                open(path, "w").write("&system\n  ibrav = 0, nat = %d, ntyp = %d\n/\n" % (len(symbols), len(uniq)) + txt)
        elif mode == "siesta":
            from phonopy.structure.atoms import symbol_map

            uniq = list(dict.fromkeys(symbols))
            body = open(path).read()
            if "ChemicalSpeciesLabel" not in body:
                hdr = "NumberOfSpecies %d\n%%block ChemicalSpeciesLabel\n" % len(uniq) + "".join(" %d %d %s\n" % (i + 1, symbol_map[s], s) for i, s in enumerate(uniq)) + "%endblock ChemicalSpeciesLabel\n"
                open(path, "w").write(hdr + body)
        elif mode == "turbomole":
            os.chdir(path)
            target = "control"
        elif mode == "fleur":
            lines = open(path).read().split("\n")
            if "! a1" not in lines[1]:
                lines[1] = lines[1] + " ! a1"
                for i, ln in enumerate(lines[4:], 4):
                    if ln.strip().isdigit():
                        lines[i] = ln + " ! num atoms"
                        break
                open(path, "w").write("\n".join(lines))
        try:
            rc, _ = read_crystal_structure(target, interface_mode=mode)
        except SystemExit as e:
            raise RuntimeError("reader called sys.exit(%s)" % (e.code,))
        return rc
    finally:
        os.chdir(cwd)


# interfaces whose structure files carry (collinear) initial moments AND whose reader reads the written file back (crystal writes ATOMSPIN into the
# .d12 input but its reader parses CRYSTAL *output*, which the harness replaces by its own parser of the geometry block: no moments to compare)
# (pwmat: get_pwmat_structure writes a 'magnetic' block but read_atom_config has no code for it - reading moments is not supported there)
MAGNETIC_MODES = ("castep", "aims", "abacus")


def compare_cells(orig, got, dec, mode):
    """Return list of (kind, msg). Order rule: preserved, or stable grouping by first appearance of species."""
    probs = []
    if got is None:
        return [("unreadable", "reader returned no cell")]
    La, Lb = np.array(orig.cell), np.array(got.cell)
    Ga, Gb = La @ La.T, Lb @ Lb.T
    tolL = (0.5 * 10.0 ** (-dec) * 1.01 + 1e-12)
    tolG = 6 * np.abs(La).max() * tolL + 1e-10
    if np.abs(Ga - Gb).max() > tolG:
        probs.append(("lattice", "metric tensor differs by %.3e (tol %.1e from %d printed decimals)" % (np.abs(Ga - Gb).max(), tolG, dec)))
        return probs
    if len(orig) != len(got):
        probs.append(("natom", "number of atoms %d -> %d" % (len(orig), len(got))))
        return probs
    sa, sb = list(orig.symbols), [str(s) for s in got.symbols]
    xa, xb = np.array(orig.scaled_positions), np.array(got.scaled_positions)
    # fractional coordinates w.r.t. possibly rotated lattice: compare through Cartesian-free route: x_b (in lattice b) vs x_a (in lattice a)
    tolx = 3 * (0.5 * 10.0 ** (-dec) * 1.01) / max(np.linalg.svd(La, compute_uv=False).min(), 1e-3) + 5e-7 if mode in ("turbomole", "crystal") else 0.5 * 10.0 ** (-dec) * 1.01 + 1e-12
    # expected orders
    uniq = list(dict.fromkeys(sa))
    grouped = [i for s in uniq for i in range(len(sa)) if sa[i] == s]  # stable sort by first appearance
    matched = None
    for label, order in (("preserved", list(range(len(sa)))), ("grouped", grouped)):
        ok = True
        for k, i in enumerate(order):
            d = xb[k] - xa[i]
            d -= np.rint(d)
            if sb[k] != sa[i] or np.abs(d).max() > tolx:
                ok = False
                break
        if ok:
            matched = label
            break
    if matched is not None and orig.magnetic_moments is not None and mode in MAGNETIC_MODES:
        # magnetic moments (collinear) travel with their atom: same value, same sign, zero stays zero
        order = list(range(len(sa))) if matched == "preserved" else grouped
        ma = np.array(orig.magnetic_moments, float)
        mb = got.magnetic_moments
        if mb is None:
            if np.abs(ma).max() > 0:
                probs.append(("magnetic_moments", "magnetic moments %s were written but none came back" % np.round(ma, 4).tolist()[:8]))
        else:
            mb = np.array(mb, float)
            if mb.shape != ma.shape or np.abs(mb - ma[order]).max() > 1e-4:
                probs.append(("magnetic_moments", "magnetic moments written %s (in the order read back) but read %s" % (np.round(ma[order], 4).tolist()[:8], np.round(mb, 4).tolist()[:8])))
    if matched is None:
        # is it at least the same multiset (wrong documented order) or really a different crystal?
        used = set()
        same_set = True
        for k in range(len(sb)):
            hit = None
            for i in range(len(sa)):
                if i in used or sa[i] != sb[k]:
                    continue
                d = xb[k] - xa[i]
                d -= np.rint(d)
                if np.abs(d).max() <= tolx:
                    hit = i
                    break
            if hit is None:
                same_set = False
                break
            used.add(hit)
        if same_set:
            probs.append(("order", "same atoms but neither in the written order nor stably grouped by species"))
        else:
            probs.append(("species_position_pairing", "species/position pairs differ: written %s read %s" % (
                [(s, np.round(x, 4).tolist()) for s, x in zip(sa, xa)][:4], [(s, np.round(x, 4).tolist()) for s, x in zip(sb, xb)][:4])))
    return probs


def si_units():
    from phonopy import units as U

    EV, A, AMU, Bohr, Ry, Ha = U.EV, U.Angstrom, U.AMU, U.Bohr, U.Rydberg, U.Hartree
    fc_si = {"eV/angstrom^2": EV / A ** 2, "eV/angstrom.au": EV / (A * Bohr * A), "Ry/au^2": Ry * EV / (Bohr * A) ** 2, "mRy/au^2": 1e-3 * Ry * EV / (Bohr * A) ** 2,
             "hartree/au^2": Ha * EV / (Bohr * A) ** 2, "hartree/angstrom.au": Ha * EV / (A * Bohr * A)}
    len_si = {"angstrom": A, "au": Bohr * A}
    force_si = {"eV/angstrom": EV / A, "Ry/au": Ry * EV / (Bohr * A), "mRy/au": 1e-3 * Ry * EV / (Bohr * A), "hartree/au": Ha * EV / (Bohr * A)}
    return fc_si, len_si, force_si


def run_case(c):
    from vlib.gen import crystals, models, nac as nacgen, setup

    viol, obs = [], {}

    def bad(kind, msg, **kw):
        if len(viol) < 10:
            viol.append(dict(kind=kind, msg=msg, **kw))

    cwd = os.getcwd()
    tmp = tempfile.mkdtemp(prefix="c17_", dir=cwd)
    try:
        if c["kind"] == "structure":
            mode = c["mode"]
            cd = crystals.make(**c["crystal"])
            cell = crystals.to_atoms(cd)
            sa = list(cell.symbols)
            interleaved = any(sa[i] != sa[i - 1] and sa[i] in sa[:i - 1] for i in range(2, len(sa)))
            feat = dict(interface=mode, interleaved=interleaved, natom=len(cell))
            targets = [("unit cell", cell, tmp)]
            if c["displaced"]:
                ph, _ = setup.build_phonopy({"crystal": c["crystal"], "smat": np.diag([2, 1, 1]).tolist()})
                ph.generate_displacements(distance=0.03)
                for i, scd in enumerate(ph.supercells_with_displacements[:3]):
                    d = os.path.join(tmp, "disp%d" % i)
                    os.makedirs(d)
                    targets.append(("displaced supercell %d" % (i + 1), scd, d))
            for what, cl, d in targets:
                sa_ = list(cl.symbols)
                il = any(sa_[i] != sa_[i - 1] and sa_[i] in sa_[:i - 1] for i in range(2, len(sa_)))
                f2 = dict(feat, interleaved=il, natom=len(cl), what=what, natom_ge_10=bool(len(cl) >= 10))
                try:
                    got, texts, notes = write_read(mode, cl, d)
                except Exception as e:
                    bad("roundtrip_exception", "%s: write/read of %s raised %s: %s" % (mode, what, type(e).__name__, str(e)[:160]), **f2)
                    continue
                dec = min(decimals_of(t) for t in texts.values()) if texts else 8
                obs["roundtrips"] = obs.get("roundtrips", 0) + 1
                obs.setdefault("decimals_by_interface", {})[mode] = dec
                for kind, msg in compare_cells(cl, got, dec, mode):
                    bad("structure_" + kind, "%s: %s: %s" % (mode, what, msg), **f2)
                if cl.magnetic_moments is not None and mode in MAGNETIC_MODES:
                    obs["magnetic_roundtrips"] = obs.get("magnetic_roundtrips", 0) + 1
                    obs["magnetic_roundtrips_with_negative_and_zero"] = obs.get("magnetic_roundtrips_with_negative_and_zero", 0) + int(
                        (np.array(cl.magnetic_moments) < 0).any() and (np.array(cl.magnetic_moments) == 0).any())
            key = "st|%s|%s|%s|%s" % (mode, c["crystal"]["name"], c["crystal"]["order"], c["crystal"].get("int_shift"))
            obs["iface_" + mode] = 1
            return {"viol": viol, "nontrivial": bool(len(cell) >= 2), "key": key, "obs": obs, "evals": len(targets),
                    "sample": {"kind": "structure", "interface": mode, "crystal": c["crystal"], "symbols": sa[:8], "interleaved": interleaved, "targets": [t[0] for t in targets]}}

        if c["kind"] == "fleur_input":
            # a user's inpgen file using the coordinate directives the reader documents (&factor: coordinates are divided by it; &shift: added):
            # the cell read from it, and the supercell files written from it (which copy the user's other lines through), read back
            from phonopy import Phonopy
            from phonopy.interface.calculator import read_crystal_structure, write_supercells_with_displacements

            rng = np.random.default_rng(c["seed"])
            cd = crystals.make(**c["crystal"])
            cell0 = crystals.to_atoms(cd)
            from phonopy.structure.atoms import symbol_map

            fac = [float(v) for v in rng.integers(2, 7, 3)] if c["factor"] else None
            sh = [float(v) for v in rng.integers(-2, 3, 3) / 8.0] if c["shift"] else None
            L = np.array(cell0.cell) / 0.529177  # bohr
            x = np.array(cell0.scaled_positions)
            coords = (x - (np.array(sh) if sh else 0.0)) * (np.array(fac) if fac else 1.0)
            lines = ["harness test cell", ""] + ["%.12f %.12f %.12f    ! a%d" % (tuple(v) + (i + 1,)) for i, v in enumerate(L)] + ["1.0   ! aa", "1.0 1.0 1.0   ! scale", "",
                     "%d ! num atoms" % len(cell0)]
            lines += ["%d %.12f %.12f %.12f" % ((symbol_map[s_],) + tuple(v)) for s_, v in zip(cell0.symbols, coords)]
            if fac:
                lines.append("&factor %g %g %g /" % tuple(fac))
            if sh:
                lines.append("&shift %g %g %g /" % tuple(sh))
            lines += ["", "&comp kmax=4.0 gmax=12.0 /", "&kpt div1=2 div2=2 div3=2 /", "&end /"]
            cwd = os.getcwd()
            os.chdir(tmp)
            try:
                open("fleur_user.in", "w").write("\n".join(lines) + "\n")
                cell_r, info = read_crystal_structure("fleur_user.in", interface_mode="fleur")
                feat = dict(interface="fleur", factor=fac, shift=sh, natom=len(cell0))
                obs["fleur_inputs"] = obs.get("fleur_inputs", 0) + 1
                from phonopy.structure.atoms import PhonopyAtoms as _PA

                cell_b = _PA(cell=L, scaled_positions=x, symbols=list(cell0.symbols))  # (the interface's length unit is the bohr)
                for kind, msg in compare_cells(cell_b, cell_r, 9, "fleur"):
                    bad("structure_" + kind, "fleur: user input with &factor %s &shift %s: the cell read differs from the one described: %s" % (fac, sh, msg), **feat)
                ph = Phonopy(cell_r, supercell_matrix=np.diag([2, 1, 1]), log_level=0)
                ph.generate_displacements(distance=0.03)
                disp = list(ph.supercells_with_displacements[:2])
                write_supercells_with_displacements("fleur", ph.supercell, disp, info, additional_info={"supercell_matrix": np.diag([2, 1, 1])})
                want = [("supercell", ph.supercell)] + [("displaced %d" % (i + 1), d) for i, d in enumerate(disp)]
                files = sorted(f_ for f_ in os.listdir(".") if f_.startswith("supercell") and f_.endswith(".in"))
                got_cells = []
                for f_ in files:
                    txt = open(f_).read()
                    try:
                        got_cells.append((f_, adapt_and_read("fleur", os.path.join(tmp, f_), list(ph.supercell.symbols)), decimals_of(txt)))
                    except Exception as e:
                        bad("dispatch_unreadable", "fleur: %s written from a user input with &factor %s &shift %s cannot be read back: %s: %s" % (f_, fac, sh, type(e).__name__, str(e)[:160]), file=f_, **feat)
                obs["fleur_input_files"] = obs.get("fleur_input_files", 0) + len(got_cells)
                for label, wc in want:
                    best = None
                    for f_, rc_, dec_ in got_cells:
                        pr_ = compare_cells(wc, rc_, dec_, "fleur")
                        if best is None or len(pr_) < len(best[1]):
                            best = (f_, pr_)
                        if not pr_:
                            break
                    if best is not None and best[1]:
                        bad("dispatch_" + best[1][0][0], "fleur, user input with &factor %s &shift %s: no written file describes the %s; closest %s: %s" % (fac, sh, label, best[0], best[1][0][1][:300]), what=label, **feat)
            finally:
                os.chdir(cwd)
            return {"viol": viol, "nontrivial": True, "key": "fleur_input|%s|%s|%s" % (c["crystal"]["name"], c["factor"], c["shift"]), "obs": obs, "evals": 3,
                    "sample": {"kind": "fleur_input", "crystal": c["crystal"], "factor": fac, "shift": sh}}

        if c["kind"] == "dispatch":
            from phonopy import Phonopy
            from phonopy.interface.calculator import write_supercells_with_displacements

            mode = c["mode"]
            cd = crystals.make(**c["crystal"])
            cell = crystals.to_atoms(cd)
            if c["crystal"]["name"] == "tric_ilv" and c["crystal"]["order"] != "asis":
                cd = crystals.make(**dict(c["crystal"], order="asis"))
                cell = crystals.to_atoms(cd)
            smat = np.array(c["smat"])
            if len(cell) * abs(int(round(np.linalg.det(smat)))) > 60:
                smat = np.diag([2, 1, 1])
            ph = Phonopy(cell, supercell_matrix=smat, log_level=0)
            ph.generate_displacements(distance=0.03)
            disp = list(ph.supercells_with_displacements[:3])
            want = [("supercell", ph.supercell)] + [("displaced %d" % (i + 1), d) for i, d in enumerate(disp)]
            tri = bool(np.allclose(smat, np.triu(smat)) or np.allclose(smat, np.tril(smat)))
            feat = dict(interface=mode, smat=smat.tolist(), smat_triangular=tri, det=abs(int(round(np.linalg.det(smat)))), diag_product=int(np.prod(np.diagonal(smat))), natom=len(ph.supercell))
            cwd = os.getcwd()
            os.chdir(tmp)
            try:
                try:
                    write_supercells_with_displacements(mode, ph.supercell, disp, dispatcher_info(mode, list(cell.symbols)), additional_info={"supercell_matrix": smat})
                except Exception as e:
                    bad("dispatch_exception", "%s: write_supercells_with_displacements raised %s: %s" % (mode, type(e).__name__, str(e)[:200]), **feat)
                    return {"viol": viol, "nontrivial": False, "obs": obs}
                entries = sorted(os.listdir("."))
            finally:
                os.chdir(cwd)
            skip_re = re.compile(r"(MAGMOM|TEMPLATE|\.d12$|\.yaml$)")
            got_cells = []
            for e_ in entries:
                p_ = os.path.join(tmp, e_)
                if skip_re.search(e_) or (os.path.isdir(p_) and mode != "turbomole") or (mode == "crystal" and not e_.endswith(".ext")):
                    continue
                txt = "".join(open(os.path.join(r_, f_)).read() for r_, _, fs_ in os.walk(p_) for f_ in fs_) if os.path.isdir(p_) else open(p_).read()
                try:
                    rc_ = adapt_and_read(mode, p_, list(ph.supercell.symbols))
                except Exception as e:
                    bad("dispatch_unreadable", "%s: file %s written by write_supercells_with_displacements cannot be read back: %s: %s" % (mode, e_, type(e).__name__, str(e)[:160]), file=e_, **feat)
                    continue
                got_cells.append((e_, rc_, decimals_of(txt)))
            obs["dispatch_files"] = obs.get("dispatch_files", 0) + len(got_cells)
            if len(got_cells) != len(want):
                bad("dispatch_file_count", "%s: %d structure files written for the supercell and %d displacements: %s" % (mode, len(got_cells), len(disp), entries), **feat)
            # every expected cell must be described by exactly one file (file naming differs between interfaces: match by content)
            for label, wc in want:
                best = None
                for e_, rc_, dec_ in got_cells:
                    pr_ = compare_cells(wc, rc_, dec_, mode)
                    if best is None or len(pr_) < len(best[1]):
                        best = (e_, pr_)
                    if not pr_:
                        break
                if best is None:
                    continue
                if best[1]:
                    bad("dispatch_" + best[1][0][0], "%s, supercell matrix %s: no written file describes the %s; closest %s: %s" % (mode, smat.tolist(), label, best[0], best[1][0][1][:300]), what=label, **feat)
            obs["dispatch_" + mode] = 1
            obs["dispatch_nontriangular"] = obs.get("dispatch_nontriangular", 0) + int(not tri)
            return {"viol": viol, "nontrivial": bool(len(cell) >= 2), "key": "dp|%s|%s|%s|%s" % (mode, c["crystal"]["name"], c["crystal"]["order"], smat.tolist()), "obs": obs, "evals": len(got_cells),
                    "sample": {"kind": "dispatch", "interface": mode, "crystal": c["crystal"], "smat": smat.tolist(), "files": entries[:6]}}

        if c["kind"] == "wien2k_forces":
            import spglib
            from phonopy import Phonopy
            from phonopy.interface.calculator import get_calc_dataset_wien2k

            cd = crystals.make(**c["crystal"])
            unit = crystals.to_atoms(cd)
            ph = Phonopy(unit, supercell_matrix=np.diag([2, 2, 2]) if len(unit) <= 2 else np.eye(3, dtype=int) * (2 if len(unit) <= 4 else 1), calculator="wien2k", log_level=0)
            ph.generate_displacements(distance=0.02)
            sc = ph.supercell
            Ls = np.array(sc.cell)
            fcm = models.pair_fc(Ls, sc.scaled_positions, sc.symbols, cutoff=4.6)
            Fall = setup.harmonic_forces_type1(ph, fcm)
            red = Ls / np.linalg.norm(Ls, axis=1)[:, None]
            rngw = np.random.default_rng(c["seed"])
            n_cmp = n_ref = 0
            for idisp, fa in enumerate(ph.dataset["first_atoms"][:3]):
                u = np.zeros((len(sc), 3))
                u[fa["number"]] = fa["displacement"]
                xs = (np.array(sc.positions) + u) @ np.linalg.inv(Ls)
                ds = spglib.get_symmetry((Ls, xs, setup.numbers_of(sc.symbols)), symprec=1e-5)
                if ds is None:
                    continue
                eq = np.array(ds["equivalent_atoms"] if isinstance(ds, dict) else ds.equivalent_atoms)
                classes = [np.where(eq == r)[0] for r in np.unique(eq)]
                for variant in ("first", "last", "random"):
                    listed = [int(cl[0] if variant == "first" else (cl[-1] if variant == "last" else cl[rngw.integers(len(cl))])) for cl in classes]
                    lines = []
                    for n_, j in enumerate(listed):
                        pos_ = np.array([float("%7.5f" % (v % 1.0)) % 1.0 for v in xs[j]])
                        lines.append("%-30s" % (":POS%03d: ATOM %4d POSITION =" % (n_ + 1, -(n_ + 1))) + "%7.5f %7.5f %7.5f  MULTIPLICITY = 1" % tuple(pos_))
                    for n_, j in enumerate(listed):
                        comp = Fall[idisp][j] @ np.linalg.inv(red)
                        lines.append("%-29s" % (":FGL%03d: %4d.ATOM" % (n_ + 1, n_ + 1)) + "%16.9f%16.9f%16.9f" % tuple(comp) + "   total forces")
                    fn = os.path.join(tmp, "case-%d-%s.scf" % (idisp, variant))
                    open(fn, "w").write("\n".join(lines) + "\n")
                    import contextlib
                    import io

                    try:
                        with contextlib.redirect_stdout(io.StringIO()):
                            calc_ = get_calc_dataset_wien2k([fn], sc, {"natom": len(sc), "first_atoms": [fa]}, verbose=False)
                    except Exception as e:
                        bad("wien2k_forces_exception", "get_calc_dataset_wien2k raised %s: %s" % (type(e).__name__, str(e)[:160]), listed=variant)
                        continue
                    fs_ = calc_["forces"]
                    if len(fs_) == 0:
                        n_ref += 1  # refusing is allowed
                        continue
                    n_cmp += 1
                    e_ = np.abs(np.array(fs_[0]) - Fall[idisp]).max()
                    if e_ > 5e-8 * max(np.abs(Fall[idisp]).max(), 1e-12) + 5e-9:
                        bad("forcesets_pairing", "WIEN2k: forces reconstructed from a case.scf that lists the %s member of each equivalent set differ from the forces of the model by %.3e (max |F| %.3e)" % (
                            variant, e_, np.abs(Fall[idisp]).max()), listed=variant, interface="wien2k")
            obs["wien2k_force_sets_compared"] = n_cmp
            obs["wien2k_force_sets_refused"] = n_ref
            return {"viol": viol, "nontrivial": bool(n_cmp), "key": "w2kf|%s" % c["crystal"]["name"], "obs": obs, "evals": n_cmp,
                    "sample": {"kind": "wien2k_forces", "crystal": c["crystal"], "compared": n_cmp, "refused": n_ref}}

        if c["kind"] == "units":
            from phonopy import units as U
            from phonopy.interface.calculator import get_default_physical_units, get_force_constant_conversion_factor

            fc_si, len_si, force_si = si_units()
            e2 = U.Hartree * U.Bohr * U.EV * U.Angstrom  # e^2/(4 pi eps0) in J.m
            n = 0
            for calc in ALL_CALCS:
                u = get_default_physical_units(calc)
                n += 1
                fcu, lu = u["force_constants_unit"], u["length_unit"]
                if fcu not in fc_si or lu not in len_si:
                    bad("units_unknown", "%s: unknown unit names %r %r" % (calc, fcu, lu), calculator=str(calc))
                    continue
                want_factor = np.sqrt(fc_si[fcu] / U.AMU) / (2 * np.pi) / 1e12
                if abs(u["factor"] - want_factor) > 1e-9 * want_factor:
                    bad("units_factor", "%s: frequency factor %.12g but sqrt(FC unit/AMU)/2pi = %.12g THz" % (calc, u["factor"], want_factor), calculator=str(calc))
                want_nac = e2 / (fc_si[fcu] * len_si[lu] ** 3)
                if u["nac_factor"] is None:
                    obs.setdefault("nac_factor_absent", []).append(str(calc))
                elif abs(u["nac_factor"] - want_nac) > 1e-9 * want_nac:
                    bad("units_nac_factor", "%s: nac_factor %.12g but e^2/(4 pi eps0) in (%s x %s^3) = %.12g" % (calc, u["nac_factor"], fcu, lu, want_nac), calculator=str(calc))
                want_d = len_si[lu] / U.Angstrom
                if abs(u["distance_to_A"] - want_d) > 1e-12 * want_d:
                    bad("units_distance", "%s: distance_to_A %.12g but length unit %s = %.12g A" % (calc, u["distance_to_A"], lu, want_d), calculator=str(calc))
                fu = u["force_unit"]
                if u["force_to_eVperA"] is not None:
                    want_f = force_si[fu] / (U.EV / U.Angstrom)
                    if abs(u["force_to_eVperA"] - want_f) > 1e-9 * want_f:
                        bad("units_force", "%s: force_to_eVperA %.12g but %s = %.12g eV/A" % (calc, u["force_to_eVperA"], fu, want_f), calculator=str(calc))
                # force unit x length unit must not contradict the FC unit's family: FC = force / length
                if abs(force_si[fu] / len_si[lu] - fc_si[fcu]) > 1e-9 * fc_si[fcu]:
                    bad("units_inconsistent", "%s: force unit / length unit != force-constant unit" % calc, calculator=str(calc))
                for other in fc_si:
                    try:
                        got = get_force_constant_conversion_factor(other, calc)
                    except Exception as e:
                        bad("units_conversion", "%s: get_force_constant_conversion_factor(%s) raised %r" % (calc, other, e), calculator=str(calc))
                        continue
                    want = fc_si[other] / fc_si[fcu]
                    if abs(got - want) > 1e-9 * want:
                        bad("units_conversion", "%s: conversion %s -> %s is %.12g, SI says %.12g" % (calc, other, fcu, got, want), calculator=str(calc))
            obs["unit_entries"] = n
            return {"viol": viol, "nontrivial": True, "keys": ["units|%s" % x for x in ALL_CALCS], "obs": obs, "evals": n,
                    "sample": {"kind": "units", "calculators": [str(x) for x in ALL_CALCS]}}

        if c["kind"] == "endtoend":
            from phonopy import Phonopy
            from phonopy import units as U
            from phonopy.interface.calculator import get_default_physical_units

            fc_si, len_si, force_si = si_units()
            cd = crystals.make(**c["crystal"])
            rng = np.random.default_rng(c["seed"])
            # physical crystal defined in Angstrom / eV
            ref = None
            nacp0 = None
            n = 0
            for calc in ALL_CALCS:
                u = get_default_physical_units(calc)
                lu, fcu = len_si[u["length_unit"]] / U.Angstrom, fc_si[u["force_constants_unit"]] / (U.EV / U.Angstrom ** 2)
                d = dict(cd)
                d["cell"] = (np.array(cd["cell"]) / lu).tolist()  # same physical lattice expressed in the calculator's length unit
                at = crystals.to_atoms(d)
                ph = Phonopy(at, supercell_matrix=np.diag([2, 2, 2]), primitive_matrix=cd["pmat"] if cd["pmat"] != "P" else None, factor=u["factor"], calculator=calc)
                sc = ph.supercell
                if ref is None:
                    fc_phys = models.pair_fc(np.array(sc.cell) * lu, sc.scaled_positions, sc.symbols, cutoff=4.8)  # eV/A^2
                    nacp0 = nacgen.random_nac(ph, rng, method="wang")
                ph.force_constants = fc_phys / fcu
                res = {}
                for with_nac in (False, True):
                    if with_nac:
                        if u["nac_factor"] is None:
                            continue
                        ph.nac_params = {"born": nacp0["born"], "dielectric": nacp0["dielectric"], "factor": u["nac_factor"], "method": "wang"}
                    ph.run_qpoints([[0.13, 0.27, -0.31], [0.5, 0, 0], [0.02, 0.0, 0.0]])
                    f = np.array(ph.get_qpoints_dict()["frequencies"])
                    ph.run_mesh([3, 3, 3])
                    ph.run_thermal_properties(t_min=300, t_max=300, t_step=10, cutoff_frequency=1e-2)  # keeps the numerically-zero acoustic modes at Gamma out
                    tp = ph.get_thermal_properties_dict()
                    res[with_nac] = (f, float(tp["free_energy"][0]), float(tp["entropy"][0]), float(tp["heat_capacity"][0]))
                n += 1
                if ref is None:
                    ref = res
                    continue
                for with_nac, (f, F, S, Cv) in res.items():
                    f0, F0, S0, C0 = ref[with_nac]
                    l0, l1 = np.sign(f0) * f0 ** 2, np.sign(f) * f ** 2
                    if np.abs(l1 - l0).max() > 1e-8 * np.abs(l0).max():
                        bad("endtoend_frequency", "%s%s: squared THz frequencies differ from the eV/Angstrom description by %.3e (max %.3e)" % (
                            calc, " with NAC" if with_nac else "", np.abs(l1 - l0).max(), np.abs(l0).max()), calculator=str(calc), with_nac=with_nac)
                    elif abs(F - F0) > 1e-7 * max(abs(F0), 1.0) or abs(S - S0) > 1e-7 * abs(S0) or abs(Cv - C0) > 1e-7 * abs(C0):
                        bad("endtoend_thermal", "%s%s: thermal properties differ (F %.10g vs %.10g)" % (calc, " with NAC" if with_nac else "", F, F0), calculator=str(calc), with_nac=with_nac)
            obs["endtoend_unit_systems"] = n
            return {"viol": viol, "nontrivial": True, "key": "e2e|%s" % c["crystal"]["name"], "obs": obs, "evals": 2 * n,
                    "sample": {"kind": "endtoend", "crystal": c["crystal"], "unit_systems": n}}

        # -------- forcesets: VASP outputs with atoms permuted / displaced-atom mismatch
        from phonopy.cui.create_force_sets import check_number_of_force_files
        from phonopy.interface.calculator import get_calc_dataset
        from phonopy.interface.vasp import write_vasp

        ph, cd = setup.build_phonopy({"crystal": c["crystal"], "smat": np.diag([2, 1, 1]).tolist()})
        sc = ph.supercell
        fc = models.pair_fc(sc.cell, sc.scaled_positions, sc.symbols, cutoff=4.6)
        ph.generate_displacements(distance=0.02)
        F = setup.harmonic_forces_type1(ph, fc)
        n = len(sc)

        def vasprun(path, cell, forces):
            L = np.array(cell.cell)
            xs = np.array(cell.scaled_positions)
            syms = list(cell.symbols)
            t = ['<?xml version="1.0" encoding="ISO-8859-1"?>', "<modeling>", ' <generator><i name="version" type="string">6.3.0  </i></generator>', ' <atominfo><atoms>%d</atoms><array name="atoms"><set>' % len(syms)]
            t += ["  <rc><c>%s</c><c>1</c></rc>" % s for s in syms]
            t += [" </set></array></atominfo>", ' <calculation>', '  <structure><crystal><varray name="basis">']
            t += ["   <v> %.10f %.10f %.10f </v>" % tuple(v) for v in L]
            t += ['  </varray></crystal><varray name="positions">']
            t += ["   <v> %.10f %.10f %.10f </v>" % tuple(v) for v in xs]
            t += ['  </varray></structure>', '  <varray name="forces">']
            t += ["   <v> %.12f %.12f %.12f </v>" % tuple(v) for v in forces]
            t += ['  </varray>', '  <energy><i name="e_fr_energy"> -10.0 </i><i name="e_wo_entrp"> -10.0 </i><i name="e_0_energy"> -10.0 </i></energy>', " </calculation>", "</modeling>"]
            open(path, "w").write("\n".join(t))

        os.chdir(tmp)
        files = []
        for i, scd in enumerate(ph.supercells_with_displacements):
            fn = "vasprun-%03d.xml" % (i + 1)
            vasprun(fn, scd, F[i])
            files.append(fn)
        ds = get_calc_dataset("vasp", n, files, verbose=False)
        got = np.array(ds["forces"])
        obs["forcesets_parsed"] = 1
        if got.shape != F.shape or np.abs(got - F).max() > 1e-11:
            bad("forcesets_pairing", "forces parsed from vasprun.xml differ from the written ones by %.3e" % (np.abs(got - F).max() if got.shape == F.shape else np.inf))
        # through the front-end function, with faults injected into the calculator outputs
        from phonopy.cui.create_force_sets import create_FORCE_SETS
        from phonopy.file_IO import parse_FORCE_SETS
        from phonopy.interface.phonopy_yaml import PhonopyYaml

        ph.save("phonopy_disp.yaml")
        rng = np.random.default_rng(c["seed"])

        def run_front_end(file_list, label, fz=False):
            py = PhonopyYaml()
            py.read("phonopy_disp.yaml")
            if os.path.exists("FORCE_SETS"):
                os.remove("FORCE_SETS")
            try:
                import contextlib
                import io

                with contextlib.redirect_stdout(io.StringIO()):
                    create_FORCE_SETS("vasp", file_list, phpy_yaml=py, disp_filename="phonopy_disp.yaml", log_level=0, force_sets_zero_mode=fz)
            except (RuntimeError, ValueError, AssertionError) as e:
                return "refused", None
            if not os.path.exists("FORCE_SETS"):
                return "refused", None
            r = parse_FORCE_SETS(filename="FORCE_SETS")
            return "accepted", np.array([d["forces"] for d in r["first_atoms"]])

        st, fs = run_front_end(files, "clean")
        obs["forcesets_front_end"] = obs.get("forcesets_front_end", 0) + 1
        if st != "accepted" or np.abs(fs - F).max() > 1e-9:
            bad("forcesets_pairing", "create_FORCE_SETS on clean outputs: %s, max force difference %s" % (st, None if fs is None else np.abs(fs - F).max()), fault="none")
        ndisp = len(files)
        if ndisp >= 2:
            # fault 1: two output files swapped (each then carries the other displacement)
            i, j = rng.choice(ndisp, 2, replace=False)
            sw = list(files)
            sw[i], sw[j] = sw[j], sw[i]
            st, fs = run_front_end(sw, "swapped files")
            obs["forcesets_faults"] = obs.get("forcesets_faults", 0) + 1
            same_disp = np.allclose(ph.dataset["first_atoms"][i]["displacement"], ph.dataset["first_atoms"][j]["displacement"]) and ph.dataset["first_atoms"][i]["number"] == ph.dataset["first_atoms"][j]["number"]
            if st == "accepted" and not same_disp and np.abs(fs - F).max() > 1e-9:
                bad("forcesets_pairing", "create_FORCE_SETS accepted swapped calculator outputs and paired forces with the wrong displacement (max diff %.3e)" % np.abs(fs - F).max(), fault="swapped_files")
        # fault 2: atoms permuted inside one output (positions and forces consistently)
        k = int(rng.integers(ndisp))
        perm = rng.permutation(n)
        if not np.array_equal(perm, np.arange(n)):
            from phonopy.structure.atoms import PhonopyAtoms

            scd = ph.supercells_with_displacements[k]
            pc = PhonopyAtoms(cell=scd.cell, scaled_positions=np.array(scd.scaled_positions)[perm], symbols=[scd.symbols[t] for t in perm])
            vasprun("perm.xml", pc, F[k][perm])
            fl = list(files)
            fl[k] = "perm.xml"
            st, fs = run_front_end(fl, "permuted atoms")
            obs["forcesets_faults"] = obs.get("forcesets_faults", 0) + 1
            if st == "accepted" and np.abs(fs - F).max() > 1e-9:
                bad("forcesets_pairing", "create_FORCE_SETS accepted an output with permuted atoms and attached forces to the wrong atoms (max diff %.3e)" % np.abs(fs - F).max(), fault="permuted_atoms")
            obs["forcesets_" + st] = obs.get("forcesets_" + st, 0) + 1
        # the same faults in residual-force mode (--fz: the first file is the perfect supercell, its forces are subtracted from all others): the
        # outputs carry F + R, the perfect cell R, so FORCE_SETS must hold F again - or the call refuses
        R = 1e-3 * rng.standard_normal((n, 3))
        vasprun("vasprun-000.xml", sc, R)
        zfiles = []
        for i, scd in enumerate(ph.supercells_with_displacements):
            fn = "vasprun-z%03d.xml" % (i + 1)
            vasprun(fn, scd, F[i] + R)
            zfiles.append(fn)
        st, fs = run_front_end(["vasprun-000.xml"] + zfiles, "clean, zero mode", fz=True)
        obs["forcesets_zero_mode"] = obs.get("forcesets_zero_mode", 0) + 1
        if st != "accepted" or np.abs(fs - F).max() > 1e-9:
            bad("forcesets_pairing", "create_FORCE_SETS(force_sets_zero_mode=True) on clean outputs: %s, max force difference %s" % (st, None if fs is None else np.abs(fs - F).max()), fault="none", zero_mode=True)
        if ndisp >= 2:
            i, j = rng.choice(ndisp, 2, replace=False)
            sw = list(zfiles)
            sw[i], sw[j] = sw[j], sw[i]
            st, fs = run_front_end(["vasprun-000.xml"] + sw, "swapped files, zero mode", fz=True)
            obs["forcesets_faults_zero_mode"] = obs.get("forcesets_faults_zero_mode", 0) + 1
            same_disp = np.allclose(ph.dataset["first_atoms"][i]["displacement"], ph.dataset["first_atoms"][j]["displacement"]) and ph.dataset["first_atoms"][i]["number"] == ph.dataset["first_atoms"][j]["number"]
            if st == "accepted" and not same_disp and np.abs(fs - F).max() > 1e-9:
                bad("forcesets_pairing", "create_FORCE_SETS(force_sets_zero_mode=True) accepted swapped calculator outputs and paired forces with the wrong displacement (max diff %.3e)" % np.abs(fs - F).max(),
                    fault="swapped_files", zero_mode=True)
        if not np.array_equal(perm, np.arange(n)):
            vasprun("permz.xml", pc, (F[k] + R)[perm])
            fl = list(zfiles)
            fl[k] = "permz.xml"
            st, fs = run_front_end(["vasprun-000.xml"] + fl, "permuted atoms, zero mode", fz=True)
            obs["forcesets_faults_zero_mode"] = obs.get("forcesets_faults_zero_mode", 0) + 1
            if st == "accepted" and np.abs(fs - F).max() > 1e-9:
                bad("forcesets_pairing", "create_FORCE_SETS(force_sets_zero_mode=True) accepted an output with permuted atoms and attached forces to the wrong atoms (max diff %.3e)" % np.abs(fs - F).max(),
                    fault="permuted_atoms", zero_mode=True)
            # a displaced cell handed in as the perfect supercell
            st, fs = run_front_end([zfiles[0]] + zfiles, "displaced cell in the perfect-cell slot", fz=True)
            obs["forcesets_faults_zero_mode"] += 1
            if st == "accepted" and np.abs(fs - F).max() > 1e-9:
                bad("forcesets_pairing", "create_FORCE_SETS(force_sets_zero_mode=True) accepted a displaced cell as the perfect supercell (max diff %.3e)" % np.abs(fs - F).max(), fault="displaced_as_perfect", zero_mode=True)
        os.chdir(cwd)
        return {"viol": viol, "nontrivial": True, "key": "fs|%s|%s" % (c["crystal"]["name"], c["crystal"].get("order_seed")), "obs": obs, "evals": len(files),
                "sample": {"kind": "forcesets", "crystal": c["crystal"], "n_files": len(files)}}
    finally:
        os.chdir(cwd)
        shutil.rmtree(tmp, ignore_errors=True)


def summarize(results, obs, tier):
    inc = []
    for m in MODES:
        if obs.get("iface_" + m, 0) == 0:
            inc.append("interface %s never exercised" % m)
    for k in ("unit_entries", "endtoend_unit_systems", "roundtrips"):
        if obs.get(k, 0) == 0:
            inc.append("%s never exercised" % k)
    return {"interfaces_skipped": {"cp2k": "cp2k-input-tools is not installed in this sandbox (structure part only; its unit set is checked)"},
            "measured_decimals": obs.get("decimals_by_interface")}, inc
