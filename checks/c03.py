"""C03 - dynamical matrix is Hermitian, time-reversal, G-periodic and symmetry-invariant.

Relational (metamorphic) monitor on pairs/triples of executions of the real code.
"""

from __future__ import annotations

import numpy as np

PROP = "C03"
LEVEL = "exploration"
VARIANTS = ("omp",)
CASE_TIMEOUT = 1200
RULE = ("cases = zoo crystal x supercell x primitive matrix x FC class (arbitrary periodic | periodic+ASR | space-group projected) x "
        "full/compact x dense/sparse x lang C/Py; identities per case: D=D^dagger, D(-q)=conj D(q), spec D(q+G)=spec D(q) (G in [-3,3]^3), "
        "spec D(Rq)=spec D(q) for all reciprocal operations (symmetric FC with measured symmetry precondition only), three zero eigenvalues at Gamma (ASR), "
        "(s/t) scaling via force_constants and masses setters; non-trivial = max|D|>0 and D not block diagonal; "
        "distinct = (crystal, order, smat, pmat, class, layout, svecs, lang); "
        "additions of rounds 6-8: zone centre given as a non-zero reciprocal lattice vector; primitive cell in another atom order; force-constant memory layouts; structures rounded to 6 decimals")
ASSUMPTIONS = [
    "symmetry precondition (FC invariant under the supercell space group, supercell point group as large as the primitive one) is measured by the harness' own group action",
    "no NAC (Wang's term is not G-periodic by construction; the statement does not claim it)",
]
MIN_NONTRIVIAL = {"quick": 100, "thorough": 500}


def gen_cases(tier, seed):
    from vlib.gen import crystals, setup

    rng = np.random.default_rng([seed, 3])
    max_atoms = 54 if tier == "quick" else 108
    per = 8 if tier == "quick" else 110
    cases = []
    for name in crystals.ZOO:
        nu = crystals.natoms(name)
        smats = setup.smat_list(max(1, max_atoms // nu), rng=rng, n_random=2)
        for k in range(per):
            fcc = ["arbitrary", "asr", "sym", "sym"][rng.integers(4)]
            if fcc == "sym":
                # symmetry-preserving supercells for the Rq test: isotropic diagonal ones
                ok = [m for m in smats if np.array_equal(np.array(m), np.diag(np.diagonal(m))) and len(set(np.diagonal(m))) == 1]
                sm = ok[rng.integers(len(ok))]
            else:
                sm = smats[rng.integers(len(smats))]
            cases.append({
                "crystal": {"name": name, "order": ["asis", "interleave", "random"][rng.integers(3)], "order_seed": int(rng.integers(1000)),
                            "int_shift": bool(rng.integers(2)), "rot_seed": int(rng.integers(1000)) if rng.integers(3) == 0 else None},
                "smat": sm, "pmat": ["P", "centring", "centring"][rng.integers(3)], "fcclass": fcc,
                "full": bool(rng.integers(2)), "store_dense_svecs": bool(rng.integers(2)), "lang": ["C", "Py"][rng.integers(2)],
                "seed": int(rng.integers(10 ** 6)), "_cost": nu * setup.det3(sm),
            })
    # structures as read from files with 6 decimals (hexagonal / trigonal cells: 1/3, 2/3 and sqrt(3)/2 are not representable): equal-length images
    # then agree to ~1e-6 only; supercells 3x3xN and 4x4xN have many pairs on the Wigner-Seitz boundary in those directions
    for b in range(6 if tier == "quick" else 40):
        name = ["hcp", "wurtzite", "rhomb_hex"][b % 3]
        k = [3, 4][int(rng.integers(2))]
        cases.append({"crystal": {"name": name, "order": "asis", "order_seed": 0, "int_shift": False, "rot_seed": None, "decimals": 6},
                      "smat": np.diag([k, k, int(rng.integers(1, 3))]).tolist(), "pmat": "P", "fcclass": "sym", "full": bool(rng.integers(2)), "store_dense_svecs": bool(rng.integers(2)),
                      "lang": "C", "seed": int(rng.integers(10 ** 6)), "_cost": 200})
    return cases


_LAYOUT = {"rng": np.random.default_rng(0), "seen": {}}


def _eig(dm, q, lang):
    # the q-point is handed over in a random container / memory layout (list, strided view, matrix column, read-only ...): same numbers, same D
    from vlib.gen.layout import relayout

    qq, kind = relayout(q, _LAYOUT["rng"])
    _LAYOUT["seen"][kind] = _LAYOUT["seen"].get(kind, 0) + 1
    dm.run(qq, lang=lang)
    D = np.array(dm.dynamical_matrix)
    return D


def run_case(c):
    from vlib.gen import models, setup

    ph, cd = setup.build_phonopy(dict(c, pmat=None))
    pm = setup.resolve_pmat(cd, c["pmat"])
    if pm != "P":
        ph, cd = setup.build_phonopy(dict(c, pmat=pm))
    sc, pr = ph.supercell, ph.primitive
    rng = np.random.default_rng(c["seed"])
    _LAYOUT["rng"], _LAYOUT["seen"] = np.random.default_rng(c["seed"] + 3), {}
    Ls, xs = np.array(sc.cell), np.array(sc.scaled_positions)
    n = len(sc)
    sym_ok = False
    rounded = c["crystal"].get("decimals") is not None
    ph_model = ph
    if rounded:
        # force constants and operations of the IDEAL crystal (same atom order); the object under test is built from the rounded structure
        ph_model, _ = setup.build_phonopy(dict(c, crystal=dict(c["crystal"], decimals=None), pmat=pm if pm != "P" else None))
        Ls, xs = np.array(ph_model.supercell.cell), np.array(ph_model.supercell.scaled_positions)
    if c["fcclass"] == "sym":
        try:
            rots, trans = setup.supercell_ops(ph_model)
            prots, _ = models.symmetry_ops(ph_model.primitive.cell, ph_model.primitive.scaled_positions, setup.numbers_of(pr.symbols))
        except models.SpglibFailed:
            return {"skip": "spglib_none_in_oracle", "nontrivial": False}
        fc = models.project_ops(Ls, xs, rots, trans, rng, decay=2.0)
        n_sc_pg = len({r.tobytes() for r in np.array(rots)})
        n_pr_pg = len({r.tobytes() for r in np.array(prots)})
        resid = models.group_residual(fc, Ls, xs, rots, trans, max_ops=8)
        sym_ok = bool(n_sc_pg >= n_pr_pg and resid < 1e-10 * np.abs(fc).max())
    else:
        fc = models.random_periodic_fc(Ls, xs, pr.cell, rng, permutation_symmetric=False, asr=(c["fcclass"] == "asr"))
    fscale = float(np.abs(fc).max() / np.min(pr.masses))
    if fscale < 1e-10:
        return {"skip": "model_vanishes (single-atom supercell under the sum rules)", "nontrivial": False}
    p2s = np.array(pr.p2s_map)
    fcin = np.array(fc if c["full"] else fc[p2s], dtype="double", order="C")
    from vlib.gen.layout import ARRAY_KINDS, relayout as _rl

    _frng = np.random.default_rng(c["seed"] + 11)
    fc_held, _fckind = _rl(fcin, _frng, kind=ARRAY_KINDS[int(_frng.integers(len(ARRAY_KINDS)))])  # C / Fortran order (owning its data) / strided window / view: same numbers
    ph.force_constants = fc_held
    dm = ph.dynamical_matrix
    lang = c["lang"]
    viol = []
    obs = {}

    def bad(kind, msg, **kw):
        if len(viol) < 6:
            viol.append(dict(kind=kind, msg=msg, fcclass=c["fcclass"], lang=lang, full=c["full"], **kw))

    qs = [rng.uniform(-0.5, 0.5, 3), rng.uniform(-2, 2, 3), np.array([0.5, 0.0, 0.0]), np.array([0.25, 0.25, 0.0])]
    maxD = 0.0
    offblock = 0.0
    nat = len(pr)
    if nat > 1:
        # the spectrum does not depend on the order in which the primitive cell lists its atoms (public positions_to_reorder argument of Primitive:
        # the primitive-to-supercell map is then not ascending); the matrix built the way a direct user of the module builds it
        from phonopy.harmonic.dynamical_matrix import get_dynamical_matrix
        from phonopy.structure.cells import Primitive

        perm = rng.permutation(nat)
        if np.array_equal(perm, np.arange(nat)):
            perm = perm[::-1]
        pr2 = Primitive(sc, pr.primitive_matrix, symprec=ph.symmetry.tolerance, store_dense_svecs=c["store_dense_svecs"], positions_to_reorder=np.array(pr.scaled_positions)[perm])
        p2s2 = np.array(pr2.p2s_map)
        if sorted(p2s2.tolist()) == sorted(p2s.tolist()):
            # (a square array is the full layout by definition: no re-ordered "compact" rows when the supercell is the primitive cell)
            dm2 = get_dynamical_matrix(np.array(fc if c["full"] or n == nat else fc[p2s2], dtype="double", order="C"), sc, pr2)
            G_ = rng.integers(-2, 3, 3)
            for q in qs + [np.zeros(3), qs[0] + (G_ if G_.any() else np.array([0, 1, 0]))]:
                l1 = np.linalg.eigvalsh(_eig(dm, q, lang))
                D2 = _eig(dm2, q, lang)
                l2 = np.linalg.eigvalsh((D2 + D2.conj().T) / 2)
                obs["n_reordered_primitive"] = obs.get("n_reordered_primitive", 0) + 1
                ls_ = max(np.abs(l1).max(), fscale)
                if np.abs(D2 - D2.conj().T).max() > 1e-13 * max(np.abs(D2).max(), fscale):
                    bad("not_hermitian", "primitive cell listed in the order %s: |D-D^dagger| = %.3e at q=%s" % (perm.tolist(), np.abs(D2 - D2.conj().T).max(), np.round(q, 4).tolist()), reordered_primitive=True)
                if np.abs(l1 - l2).max() > 1e-10 * ls_:
                    bad("atom_order_dependence", "eigenvalues change by %.3e (scale %.3e) when the primitive cell lists its atoms in the order %s (p2s_map %s) at q=%s" % (
                        np.abs(l1 - l2).max(), ls_, perm.tolist(), p2s2.tolist(), np.round(q, 4).tolist()), reordered_primitive=True)
        else:
            bad("reordered_primitive", "Primitive(positions_to_reorder=permuted positions) lists other atoms: p2s_map %s vs %s" % (p2s2.tolist(), p2s.tolist()))
    # the zone centre given as a non-zero reciprocal lattice vector: D(G) = U D(0) U^+ with the intra-cell phases (complex in general), same spectrum
    lam0_ = np.linalg.eigvalsh(_eig(dm, np.zeros(3), lang))
    for _ in range(3):
        G = rng.integers(-3, 4, size=3)
        if not G.any():
            G[int(rng.integers(3))] = 1
        DG = _eig(dm, G.astype(float), lang)
        lamG_ = np.linalg.eigvalsh((DG + DG.conj().T) / 2)
        obs["n_G_periodic"] = obs.get("n_G_periodic", 0) + 1
        obs["n_zone_centre_as_G"] = obs.get("n_zone_centre_as_G", 0) + 1
        obs["n_zone_centre_as_G_complex"] = obs.get("n_zone_centre_as_G_complex", 0) + int(np.abs(DG.imag).max() > 1e-9 * max(np.abs(DG).max(), fscale))
        if np.abs(lamG_ - lam0_).max() > 1e-10 * max(np.abs(lam0_).max(), fscale):
            bad("G_periodicity", "spectrum at q=G=%s differs from the spectrum at q=0 by %.3e (scale %.3e)" % (G.tolist(), np.abs(lamG_ - lam0_).max(), max(np.abs(lam0_).max(), fscale)), zone_centre=True)
    for q in qs:
        D = _eig(dm, q, lang)
        s = max(np.abs(D).max(), fscale)
        maxD = max(maxD, np.abs(D).max())
        if nat > 1:
            Dm = D.copy()
            for j in range(nat):
                Dm[3 * j:3 * j + 3, 3 * j:3 * j + 3] = 0
            offblock = max(offblock, np.abs(Dm).max())
        e = np.abs(D - D.conj().T).max()
        obs["n_hermitian"] = obs.get("n_hermitian", 0) + 1
        if e > 1e-13 * s:
            bad("not_hermitian", "|D-D^dagger| = %.3e (scale %.3e) at q=%s" % (e, s, np.round(q, 4).tolist()))
        Dm_ = _eig(dm, -q, lang)
        e = np.abs(Dm_ - D.conj()).max()
        obs["n_time_reversal"] = obs.get("n_time_reversal", 0) + 1
        if e > 1e-12 * s:
            bad("time_reversal", "|D(-q)-conj D(q)| = %.3e (scale %.3e) at q=%s" % (e, s, np.round(q, 4).tolist()))
        lam = np.linalg.eigvalsh((D + D.conj().T) / 2)
        ls = max(np.abs(lam).max(), fscale)
        for _ in range(2):
            G = rng.integers(-3, 4, size=3)
            lamG = np.linalg.eigvalsh(_eig(dm, q + G, lang))
            obs["n_G_periodic"] = obs.get("n_G_periodic", 0) + 1
            e = np.abs(lamG - lam).max()
            if e > 1e-10 * ls:
                bad("G_periodicity", "spectrum changes by %.3e (scale %.3e) under q -> q+G, G=%s" % (e, ls, G.tolist()))
        if sym_ok:
            for R in ph.primitive_symmetry.reciprocal_operations:
                lamR = np.linalg.eigvalsh(_eig(dm, np.array(R) @ q, lang))
                obs["n_rotation"] = obs.get("n_rotation", 0) + 1
                e = np.abs(lamR - lam).max()
                # (rounded structure: interatomic vectors, hence phases, are off by ~1e-6 relative; a lost tie changes the spectrum by ~1e-3)
                if e > (3e-5 if rounded else 1e-9) * ls:
                    bad("rotation_invariance", "spectrum changes by %.3e (scale %.3e) under q -> Rq, R=%s" % (e, ls, np.array(R).tolist()))
                    break
    if sym_ok:
        # the set of reciprocal operations itself: harness builds (W^-1)^T from its own spglib call on the primitive cell
        mine = {np.rint(np.linalg.inv(W).T).astype(int).tobytes() for W in prots}
        theirs = {np.array(R).astype(int).tobytes() for R in ph.primitive_symmetry.reciprocal_operations}
        obs["n_recip_ops_set"] = 1
        if mine != theirs:
            minus = {(-np.frombuffer(b, dtype=int).reshape(3, 3)).tobytes() for b in mine}
            if not (theirs <= (mine | minus) and mine <= (theirs | {(-np.frombuffer(b, dtype=int).reshape(3, 3)).tobytes() for b in theirs})):
                bad("reciprocal_operations", "primitive_symmetry.reciprocal_operations (%d) is not the point group acting on q (%d operations expected)" % (len(theirs), len(mine)))
    if c["fcclass"] in ("asr", "sym"):
        lam0 = np.linalg.eigvalsh(_eig(dm, np.zeros(3), lang))
        ls = max(np.abs(lam0).max(), fscale)
        nzero = int((np.abs(lam0) < 1e-9 * ls).sum())
        obs["n_asr"] = 1
        if nzero < 3:
            bad("acoustic_zero", "only %d eigenvalues vanish at Gamma (|lam| min three = %s, scale %.3e)" % (nzero, np.sort(np.abs(lam0))[:3].tolist(), ls))
    # scaling Phi -> s Phi, m -> t m
    q = qs[0]
    lam = np.linalg.eigvalsh(_eig(dm, q, lang))
    s_, t_ = float(10 ** rng.uniform(-10, 4)), float(10 ** rng.uniform(-3, 3))  # force-constant units span many decades (and cut-off tails are small): no absolute scale may matter
    m0 = np.array(pr.masses)
    order_fc_first = bool(rng.integers(2))  # either order of the two assignments is legitimate and must give the same object
    if order_fc_first:
        ph.force_constants = fcin * s_
        ph.masses = m0 * t_
    else:
        ph.masses = m0 * t_
        ph.force_constants = fcin * s_
    obs["scaling_fc_first" if order_fc_first else "scaling_masses_first"] = 1
    okm = (np.allclose(ph.primitive.masses, m0 * t_, rtol=1e-14) and np.allclose(ph.supercell.masses, (m0 * t_)[[pr.p2p_map[x] for x in pr.s2p_map]], rtol=1e-14)
           and np.allclose(ph.unitcell.masses, np.array(ph.supercell.masses)[ph.supercell.u2s_map], rtol=1e-14))
    obs["n_scaling"] = 1
    if not okm:
        bad("masses_setter", "masses setter did not propagate to primitive, supercell and unit cell consistently")
    lam2 = np.linalg.eigvalsh(_eig(ph.dynamical_matrix, q, lang))
    e = np.abs(lam2 - lam * s_ / t_).max()
    if e > 1e-10 * max(np.abs(lam).max(), fscale) * s_ / t_:
        bad("scaling", "eigenvalues do not scale by s/t: err %.3e (scale %.3e), s=%.3e t=%.3e" % (e, np.abs(lam).max() * s_ / t_, s_, t_))
    nontrivial = bool(maxD > 0 and (nat == 1 or offblock > 1e-8 * maxD))
    key = "%s|%s|%s|%s|%s|%s|%s|%s" % (c["crystal"]["name"], c["crystal"]["order"], c["smat"], c["pmat"], c["fcclass"], c["full"], c["store_dense_svecs"], lang)
    obs["class_" + c["fcclass"]] = 1
    obs["sym_precondition_ok"] = int(sym_ok)
    obs["lang_" + lang] = 1
    obs["fclayout_" + _fckind] = 1
    for k_, v_ in _LAYOUT["seen"].items():
        obs["qlayout_" + k_] = v_
    return {"viol": viol, "nontrivial": nontrivial, "key": key, "evals": sum(v for k, v in obs.items() if k.startswith("n_")), "obs": obs,
            "sample": {"crystal": c["crystal"], "smat": c["smat"], "pmat": pm, "fcclass": c["fcclass"], "lang": lang, "sym_precondition_ok": sym_ok,
                       "n_recip_ops": len(ph.primitive_symmetry.reciprocal_operations)}}


def summarize(results, obs, tier):
    inc = []
    for k in ("n_hermitian", "n_time_reversal", "n_G_periodic", "n_rotation", "n_asr", "n_scaling"):
        if obs.get(k, 0) == 0:
            inc.append("identity %s never evaluated" % k)
    return {}, inc
