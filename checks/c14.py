"""C14 - one spectrum: every access path and output option reports the same phonons.

Relational monitor over access paths x option product, on both the OpenMP and the serial build (the two arms of
QpointsPhonon._run / Mesh._set_phonon): reported (D, w, e) must satisfy D e = w^2 e, all paths must agree, written files parse back.
"""

from __future__ import annotations

import os
import re
import shutil
import tempfile

import numpy as np

PROP = "C14"
LEVEL = "exploration"
VARIANTS = ("omp", "serial")
CASE_TIMEOUT = 1200
RULE = ("cases = zoo crystal x supercell x NAC (none|Wang|Gonze-Lee) x full/compact x build (OpenMP|serial); per case: run_qpoints over the full 2^3 product "
        "(eigenvectors x group velocities x dynamical matrices), band path from Gamma (with the path direction as NAC direction) with/without band connection, "
        "a set of 10 requests (q-points with/without direction, band, mesh, single-q, Gamma with directions) issued in two orders on one object: same answers per request; "
        "four segments in one call (A->Gamma, Gamma->B, B->C, C->Gamma) vs each segment alone, vs the dynamical-matrix object (NAC direction = segment direction at Gamma) and D e = lambda e, "
        "Mesh and IterMesh, dynamical_matrix.run, get_frequencies*, get_dynamical_matrix_at_q; yaml/hdf5 of qpoints, band and mesh parsed back; "
        "non-trivial = more than one band and max|D|>0; distinct = (crystal, smat, pmat, nac, layout, build); "
        "additions of rounds 6-8: dynamical-matrix block of qpoints.yaml / qpoints.hdf5 read back; arrays of the first request re-read at the very end")
ASSUMPTIONS = [
    "eigenvalues are compared (sign*nu^2/factor^2), not frequencies, to avoid the sqrt amplification at acoustic modes; eigenvectors only through D e = lambda e and projectors",
    "printed precision is measured from the written text (number of decimals of each field)",
]
MIN_NONTRIVIAL = {"quick": 40, "thorough": 300}


def gen_cases(tier, seed):
    from vlib.gen import crystals, setup

    rng = np.random.default_rng([seed, 14])
    names = ["rocksalt", "zincblende", "cscl", "wurtzite", "rutile", "tric2", "perovskite", "sc", "fcc", "hcp", "diamond", "mono_p", "ortho_c", "tric3"]
    cases = []
    n = 48 if tier == "quick" else 320
    for i in range(n):
        name = names[i % len(names)]
        nu = crystals.natoms(name)
        smats = setup.smat_list(max(1, 40 // nu), rng=rng, n_random=1)
        smats = [m for m in smats if setup.det3(m) > 1] or smats
        nac = [None, "wang", "gonze"][i % 3] if name in crystals.POLAR else None
        cases.append({"crystal": {"name": name, "order": ["asis", "random"][rng.integers(2)], "order_seed": int(rng.integers(100))},
                      "smat": smats[rng.integers(len(smats))], "pmat": ["P", "centring"][rng.integers(2)], "nac": nac, "full": bool(rng.integers(2)),
                      "seed": int(rng.integers(10 ** 6)), "_variant": ["omp", "serial"][(i // 3) % 2], "_cost": 3 if nac == "gonze" else 1,
                      "factor": [None, None, 1.0, 521.47083, 108.97077][int(rng.integers(5))], "unstable": bool(rng.integers(4) == 0)})  # unit conversion factor: default (VASP, THz) | 1 | VASP->cm^-1 | QE
    return cases


def lam_of(freqs, factor):
    f = np.array(freqs, float)
    return np.sign(f) * (f / factor) ** 2


def ptol(dec, values):
    """Printed precision: half a unit of the last printed decimal plus 8 ulp of the largest printed magnitude (matters once values reach hundreds,
    e.g. frequencies in cm^-1 printed with 10 decimals)."""
    return 0.5000001 * 10.0 ** (-dec) + 8 * np.finfo(float).eps * max(float(np.abs(np.array(values, float)).max()), 1.0)


def decimals_in(text, key):
    """Smallest number of printed decimals among the numbers on lines containing key."""
    dec = None
    for line in text.splitlines():
        if key in line:
            for m in re.findall(r"-?\d+\.(\d+)", line.split(key, 1)[1]):
                dec = len(m) if dec is None else min(dec, len(m))
    return dec


def run_case(c):
    import h5py
    import yaml
    from vlib.gen import models, nac as nacgen, setup

    c = {k: v for k, v in c.items() if not (k == "factor" and v is None)}
    ph, cd = setup.build_phonopy(dict(c, pmat=None))
    pm = setup.resolve_pmat(cd, c["pmat"])
    if pm != "P":
        ph, cd = setup.build_phonopy(dict(c, pmat=pm))
    sc, pr = ph.supercell, ph.primitive
    rng = np.random.default_rng(c["seed"])
    fc = models.pair_fc(sc.cell, sc.scaled_positions, sc.symbols, cutoff=rng.uniform(3.4, 5.5))
    if np.abs(fc).max() < 1e-8:
        return {"skip": "no interaction"}
    if c.get("unstable"):
        # a dynamically unstable crystal (imaginary modes, reported as negative frequencies by every access path): difference of two spring models
        fc = fc - 1.6 * models.pair_fc(sc.cell, sc.scaled_positions, sc.symbols, cutoff=3.2, r0=1.3)
    p2s = np.array(pr.p2s_map)
    from vlib.gen.layout import ARRAY_KINDS, relayout as _rl

    _frng = np.random.default_rng(c["seed"] + 21)
    fc_in, fckind = _rl(fc if c["full"] else fc[p2s], _frng, kind=ARRAY_KINDS[int(_frng.integers(len(ARRAY_KINDS)))])  # C / Fortran order / strided / view
    ph.force_constants = fc_in
    if c["nac"]:
        ph.nac_params = nacgen.random_nac(ph, rng, method=c["nac"])
    factor = ph.unit_conversion_factor
    nb = 3 * len(pr)
    viol, obs = [], {"fclayout_" + fckind: 1, "factor_%s" % c.get("factor", "default"): 1, "unstable_cases": int(bool(c.get("unstable")))}
    import phonopy._phonopy as phonoc

    build_is_omp = bool(phonoc.use_openmp())
    feat = dict(nac=c["nac"], full=c["full"], openmp_build=build_is_omp)

    def bad(kind, msg, **kw):
        if len(viol) < 10:
            viol.append(dict(kind=kind, msg=msg, **dict(feat, **kw)))

    qs = np.array([rng.uniform(-0.5, 0.5, 3), [0.5, 0, 0], [0.25, 0.25, 0], rng.uniform(-0.5, 0.5, 3), [0.1, 0.0, 0.0],
                   [0.21, 0.13, 0.5], [0.0, 0.0, 0.5], [0.5, 0.5, 0.5],  # zone-face points: bands stick together there on non-symmorphic / hexagonal cells
                   [1.0, 0.0, 0.0], [1.0, -1.0, 2.0]])  # non-zero reciprocal lattice vectors (a band segment ending at Gamma', a q given outside the first zone)
    # reference: the dynamical-matrix object directly
    ref = {"D": [], "lam": []}
    for q in qs:
        ph.dynamical_matrix.run(q)
        D = np.array(ph.dynamical_matrix.dynamical_matrix)
        ref["D"].append(D)
        ref["lam"].append(np.linalg.eigvalsh(D))
    ref["D"], ref["lam"] = np.array(ref["D"]), np.array(ref["lam"])
    lscale = max(np.abs(ref["lam"]).max(), 1e-300)
    dscale = max(np.abs(ref["D"]).max(), 1e-300)
    gv_ref = None
    from vlib.gen.layout import relayout

    lrng = np.random.default_rng(c["seed"] + 7)
    # results handed out stay what they are: the arrays of this first request are kept (by reference) and looked at again at the very end, after
    # every other request of this case has gone through the same object
    ph.run_qpoints(qs, with_eigenvectors=True, with_group_velocities=True, with_dynamical_matrices=True)
    held0 = ph.get_qpoints_dict()
    held0 = {k_: v_ for k_, v_ in held0.items() if isinstance(v_, np.ndarray)}
    held0_copy = {k_: np.array(v_, copy=True) for k_, v_ in held0.items()}
    # ---- run_qpoints, full option product
    for we in (False, True):
        for wg in (False, True):
            for wd in (False, True):
                q_in, qkind = relayout(qs, lrng)  # list / Fortran order / strided view / read-only: same numbers
                obs["qlayout_" + qkind] = obs.get("qlayout_" + qkind, 0) + 1
                ph.run_qpoints(q_in, with_eigenvectors=we, with_group_velocities=wg, with_dynamical_matrices=wd)
                d = ph.get_qpoints_dict()
                opt = "ev=%d gv=%d dm=%d" % (we, wg, wd)
                obs["n_option_cells"] = obs.get("n_option_cells", 0) + 1
                lam = lam_of(d["frequencies"], factor)
                e = np.abs(np.sort(lam, axis=1) - ref["lam"]).max()
                if e > 1e-10 * lscale:
                    bad("qpoints_vs_direct", "run_qpoints(%s) eigenvalues differ from dynamical_matrix.run by %.3e (scale %.3e)" % (opt, e, lscale), options=opt)
                if wd:
                    Dm = np.array(d["dynamical_matrices"])
                    e = np.abs(Dm - ref["D"]).max()
                    if e > 1e-12 * dscale:
                        bad("reported_dynamical_matrix", "run_qpoints(%s): reported dynamical matrices differ from dynamical_matrix.run by %.3e (scale %.3e)" % (opt, e, dscale),
                            options=opt, with_eigenvectors=we, with_dynamical_matrices=wd)
                    if np.abs(Dm - Dm.conj().transpose(0, 2, 1)).max() > 1e-12 * dscale:
                        bad("reported_dynamical_matrix", "run_qpoints(%s): reported dynamical matrix is not Hermitian" % opt, options=opt, with_eigenvectors=we, with_dynamical_matrices=wd)
                if we:
                    ev = np.array(d["eigenvectors"])
                    for i in range(len(qs)):
                        Duse = np.array(d["dynamical_matrices"][i]) if wd else ref["D"][i]
                        r = np.abs(Duse @ ev[i] - ev[i] * lam[i][None, :]).max()
                        if r > 1e-9 * dscale:
                            bad("eigen_residual", "run_qpoints(%s): reported eigenvectors do not diagonalise the %s dynamical matrix to the reported eigenvalues (residual %.3e, scale %.3e)" % (
                                opt, "reported" if wd else "direct", r, dscale), options=opt, with_eigenvectors=we, with_dynamical_matrices=wd)
                            break
                        if np.abs(ev[i].conj().T @ ev[i] - np.eye(nb)).max() > 1e-9:
                            bad("eigenvectors_not_orthonormal", "run_qpoints(%s): eigenvectors not orthonormal" % opt, options=opt)
                            break
                if wg:
                    gv = np.array(d["group_velocities"])
                    if gv_ref is None:
                        gv_ref = gv
                    elif np.abs(gv - gv_ref).max() > 1e-9 * max(np.abs(gv_ref).max(), 1e-12):
                        bad("group_velocity_option_dependent", "group velocities depend on the other requested outputs (%s): %.3e" % (opt, np.abs(gv - gv_ref).max()), options=opt)
    # ---- the same request after an unrelated call that passed a direction (one GroupVelocity object serves all access paths): same answers
    for d_ in ([1.0, 0.0, 0.0], [0.3, -0.2, 0.0]):
        ph.run_qpoints(qs, with_group_velocities=True, nac_q_direction=d_)
        ph.run_qpoints(qs, with_group_velocities=True)
        gv2 = np.array(ph.get_qpoints_dict()["group_velocities"])
        obs["n_gv_after_direction_call"] = obs.get("n_gv_after_direction_call", 0) + 1
        if gv_ref is not None and np.abs(gv2 - gv_ref).max() > 1e-9 * max(np.abs(gv_ref).max(), 1e-12):
            k = int(np.argmax(np.abs(gv2 - gv_ref).max(axis=(1, 2))))
            bad("group_velocity_history_dependent", "group velocities at q=%s changed by %.3e after an unrelated run_qpoints(nac_q_direction=%s, with_group_velocities=True) call" % (
                np.round(qs[k], 4).tolist(), np.abs(gv2 - gv_ref).max(), d_), direction=d_)
            break
        ph.run_band_structure([qs[[5, 6]]], with_group_velocities=True)
        gvb = np.array(ph.get_band_structure_dict()["group_velocities"][0])
        if gv_ref is not None and np.abs(gvb - gv_ref[[5, 6]]).max() > 1e-9 * max(np.abs(gv_ref).max(), 1e-12):
            bad("group_velocity_history_dependent", "band-path group velocities at the zone face differ from run_qpoints by %.3e after a call that passed a direction" % np.abs(gvb - gv_ref[[5, 6]]).max(), direction=d_)
            break
    # ---- single-q helpers
    for i, q in enumerate(qs[:3]):
        f1 = ph.get_frequencies(relayout(q, lrng)[0])
        f2, e2 = ph.get_frequencies_with_eigenvectors(relayout(q, lrng)[0])
        D3 = ph.get_dynamical_matrix_at_q(relayout(q, lrng)[0])
        obs["n_single_q"] = obs.get("n_single_q", 0) + 1
        for nm, lam in (("get_frequencies", lam_of(f1, factor)), ("get_frequencies_with_eigenvectors", lam_of(f2, factor))):
            if np.abs(np.sort(lam) - ref["lam"][i]).max() > 1e-10 * lscale:
                bad("single_q_vs_direct", "%s eigenvalues differ from dynamical_matrix.run by %.3e" % (nm, np.abs(np.sort(lam) - ref["lam"][i]).max()))
        if np.abs(np.array(D3) - ref["D"][i]).max() > 1e-12 * dscale:
            bad("single_q_vs_direct", "get_dynamical_matrix_at_q differs from dynamical_matrix.run by %.3e" % np.abs(np.array(D3) - ref["D"][i]).max())
        if np.abs(ref["D"][i] @ e2 - e2 * lam_of(f2, factor)[None, :]).max() > 1e-9 * dscale:
            bad("eigen_residual", "get_frequencies_with_eigenvectors: D e != lambda e")
    # ---- band structure from Gamma along a direction (NAC direction = path direction at Gamma)
    end = np.array([[0.5, 0, 0], [0.5, 0.5, 0], [0.3, 0.2, 0.1]][rng.integers(3)])
    path = np.array([end * t for t in np.linspace(0, 1, 7)])
    band_freqs = {}
    band_gv = {}
    for conn in (False, True):
        for wg in (False, True):
            ph.run_band_structure([path], with_eigenvectors=True, with_group_velocities=wg, is_band_connection=conn)
            bd = ph.get_band_structure_dict()
            fr = np.array(bd["frequencies"][0])
            band_freqs[(conn, wg)] = fr
            if wg:
                band_gv[conn] = np.array(bd["group_velocities"][0])
            obs["n_band_runs"] = obs.get("n_band_runs", 0) + 1
            # compare with run_qpoints at the same q (Gamma with the path direction)
            ph.run_qpoints(path[1:], with_eigenvectors=False)
            lam_q = lam_of(ph.get_qpoints_dict()["frequencies"], factor)
            lam_b = lam_of(fr, factor)
            e = np.abs(np.sort(lam_b[1:], axis=1) - np.sort(lam_q, axis=1)).max()
            if e > 1e-10 * lscale:
                bad("band_vs_qpoints", "band structure (connection=%s, gv=%s) per-q set of eigenvalues differs from run_qpoints by %.3e (scale %.3e)" % (conn, wg, e, lscale), band_connection=conn)
            ph.run_qpoints([[0, 0, 0]], nac_q_direction=end if c["nac"] else None)
            lam0 = lam_of(ph.get_qpoints_dict()["frequencies"][0], factor)
            e0 = np.abs(np.sort(lam_b[0]) - np.sort(lam0)).max()
            if e0 > 1e-10 * lscale:
                bad("band_gamma_nac_direction", "band structure at Gamma (path direction as NAC direction) differs from run_qpoints(nac_q_direction) by %.3e" % e0, band_connection=conn)
            evb = np.array(bd["eigenvectors"][0])
            for k in range(1, len(path)):
                ph.dynamical_matrix.run(path[k])
                Dk = np.array(ph.dynamical_matrix.dynamical_matrix)
                if np.abs(Dk @ evb[k] - evb[k] * lam_b[k][None, :]).max() > 1e-9 * dscale:
                    bad("eigen_residual", "band structure (connection=%s): reported eigenvectors/frequencies at q=%s do not satisfy D e = lambda e" % (conn, np.round(path[k], 3).tolist()), band_connection=conn)
                    break
    if np.abs(np.sort(band_freqs[(True, False)], axis=1) - np.sort(band_freqs[(False, False)], axis=1)).max() > 1e-9 * max(np.abs(band_freqs[(False, False)]).max(), 1e-12):
        bad("band_connection_changes_set", "band connection changes the per-q multiset of frequencies")
    # band connection re-orders the modes, and everything reported per mode with them: the group velocity in slot b belongs to the frequency in slot b
    if True in band_gv and False in band_gv:
        f_c, f_p, g_c, g_p = band_freqs[(True, True)], band_freqs[(False, True)], band_gv[True], band_gv[False]
        fm = max(np.abs(f_p).max(), 1e-12)
        for k in range(len(f_p)):
            gaps = np.abs(f_p[k][:, None] - f_p[k][None, :]) + np.eye(f_p.shape[1]) * 1e9
            for b in range(f_p.shape[1]):
                if gaps[b].min() < 1e-4 * fm:
                    continue  # degenerate: the pairing inside the group is not defined
                j = int(np.argmin(np.abs(f_c[k] - f_p[k][b])))
                obs["n_gv_slot_checks"] = obs.get("n_gv_slot_checks", 0) + 1
                if np.abs(g_c[k][j] - g_p[k][b]).max() > 1e-8 * max(np.abs(g_p).max(), 1e-12):
                    bad("band_connection_gv_slot", "band connection: at q=%s the group velocity reported next to frequency %.6f is %s, without connection that mode has %s" % (
                        np.round(path[k], 4).tolist(), f_p[k][b], np.round(g_c[k][j], 5).tolist(), np.round(g_p[k][b], 5).tolist()), band_connection=True)
                    break
            else:
                continue
            break
    # ---- several segments in one call (joined at Gamma, joined elsewhere, ending at Gamma): every (segment, q) equals the segment computed
    #      alone, run_qpoints at the same q (at Gamma with the segment's direction as NAC direction), and D e = lambda e for the reported pairs
    G = np.zeros(3)
    A = np.array([[0.5, 0, 0], [0.5, 0.5, 0], [0, 0.5, 0.5]][rng.integers(3)], float)
    B = np.array([[0, 0, 0.5], [0.5, 0.5, 0.5], [0.3, 0.1, 0.45]][rng.integers(3)], float)
    C = rng.uniform(-0.5, 0.5, 3)
    segs = [np.linspace(A, G, 5), np.linspace(G, B, 5), np.linspace(B, C, 4), np.linspace(C, G, 4)]
    for conn in (False, True):
        ph.run_band_structure(segs, with_eigenvectors=True, is_band_connection=conn)
        bd = ph.get_band_structure_dict()
        fr_all = [np.array(f) for f in bd["frequencies"]]
        ev_all = [np.array(e) for e in bd["eigenvectors"]]
        obs["n_band_runs"] = obs.get("n_band_runs", 0) + 1
        for si, seg in enumerate(segs):
            ph.run_band_structure([seg], with_eigenvectors=True, is_band_connection=conn)
            fr1 = np.array(ph.get_band_structure_dict()["frequencies"][0])
            lam_m, lam_1 = lam_of(fr_all[si], factor), lam_of(fr1, factor)
            e = np.abs(np.sort(lam_m, axis=1) - np.sort(lam_1, axis=1)).max()
            obs["n_joined_segments"] = obs.get("n_joined_segments", 0) + 1
            if e > 1e-10 * lscale:
                k = int(np.argmax(np.abs(np.sort(lam_m, axis=1) - np.sort(lam_1, axis=1)).max(axis=1)))
                bad("band_segment_context", "segment %d of a %d-segment path (connection=%s): eigenvalues at q=%s differ from the same segment computed alone by %.3e (scale %.3e)" % (
                    si, len(segs), conn, np.round(seg[k], 4).tolist(), e, lscale), band_connection=conn, joined_at_gamma=bool(np.abs(seg[k]).max() < 1e-12))
            qdir = seg[0] - seg[-1]
            for k, q in enumerate(seg):
                at_gamma = bool(np.abs(q).max() < 1e-12)
                if c["nac"] and at_gamma:
                    ph.dynamical_matrix.run(q, q_direction=qdir)
                else:
                    ph.dynamical_matrix.run(q)
                Dk = np.array(ph.dynamical_matrix.dynamical_matrix)
                lk = np.linalg.eigvalsh(Dk)
                if np.abs(np.sort(lam_m[k]) - lk).max() > 1e-10 * lscale:
                    bad("band_vs_direct", "segment %d (connection=%s): eigenvalues at q=%s differ from the dynamical-matrix object%s by %.3e" % (
                        si, conn, np.round(q, 4).tolist(), " (NAC direction = segment direction)" if at_gamma and c["nac"] else "", np.abs(np.sort(lam_m[k]) - lk).max()),
                        band_connection=conn, joined_at_gamma=at_gamma)
                    break
                if np.abs(Dk @ ev_all[si][k] - ev_all[si][k] * lam_m[k][None, :]).max() > 1e-9 * dscale:
                    bad("eigen_residual", "segment %d (connection=%s): reported eigenvectors/frequencies at q=%s do not satisfy D e = lambda e" % (si, conn, np.round(q, 4).tolist()),
                        band_connection=conn, joined_at_gamma=at_gamma)
                    break
    # ---- order independence: the same set of requests issued in two different orders on the same object gives the same answers request by request
    #      (helper objects - dynamical matrix, group velocity - are shared between the access paths and must not remember a previous request)
    qz = np.array([[0.21, 0.13, 0.5], [0.0, 0.0, 0.5], [0.37, -0.11, 0.23]])
    dirs = [[1.0, 0.0, 0.0], [0.0, 0.0, 1.0], [0.3, -0.2, 0.1]]

    def _lam(fr):
        return np.sort(lam_of(np.array(fr), factor), axis=-1)

    def r_qp(we, wg, d):
        def f():
            ph.run_qpoints(qz, with_eigenvectors=we, with_group_velocities=wg, nac_q_direction=d)
            dd = ph.get_qpoints_dict()
            return {"lam": _lam(dd["frequencies"]), "gv": np.array(dd["group_velocities"]) if wg else None}
        return f

    def r_band(conn):
        def f():
            ph.run_band_structure([qz], with_eigenvectors=True, with_group_velocities=True, is_band_connection=conn)
            bd = ph.get_band_structure_dict()
            return {"lam": _lam(bd["frequencies"][0]), "gv": None if conn else np.array(bd["group_velocities"][0])}
        return f

    def r_mesh(sym, gv_):
        def f():
            ph.run_mesh([2, 2, 2], is_mesh_symmetry=sym, with_group_velocities=gv_, is_gamma_center=False)
            md_ = ph.get_mesh_dict()
            return {"lam": _lam(md_["frequencies"]), "gv": np.array(md_["group_velocities"]) if gv_ else None}
        return f

    def r_single():
        return {"lam": _lam([ph.get_frequencies(q) for q in qz]), "gv": np.array([ph.get_group_velocity_at_q(q) for q in qz])}

    def r_gamma(d):
        def f():
            ph.run_qpoints([[0, 0, 0]], nac_q_direction=d if c["nac"] else None, with_group_velocities=False)
            return {"lam": _lam(ph.get_qpoints_dict()["frequencies"]), "gv": None}
        return f

    requests = [("qpoints", r_qp(False, True, None)), ("qpoints+dir0", r_qp(True, True, dirs[0])), ("qpoints+dir2", r_qp(False, True, dirs[2])), ("band", r_band(False)),
                ("band+connection", r_band(True)), ("mesh sym gv", r_mesh(True, True)), ("mesh nosym", r_mesh(False, False)), ("single q", r_single),
                ("gamma dir1", r_gamma(dirs[1])), ("gamma dir0", r_gamma(dirs[0]))]
    first = {nm: fn() for nm, fn in requests}
    order = rng.permutation(len(requests))
    for k in list(order) + list(order[::-1]):
        nm, fn = requests[k]
        got = fn()
        obs["n_order_requests"] = obs.get("n_order_requests", 0) + 1
        e = np.abs(got["lam"] - first[nm]["lam"]).max()
        if e > 1e-10 * lscale:
            bad("request_order_dependent", "request '%s' gives eigenvalues different by %.3e when issued after other requests (order %s)" % (nm, e, [requests[j][0] for j in order]), request=nm)
            break
        if got["gv"] is not None and np.abs(got["gv"] - first[nm]["gv"]).max() > 1e-9 * max(np.abs(first[nm]["gv"]).max(), 1e-12):
            bad("request_order_dependent", "request '%s' gives group velocities different by %.3e when issued after other requests (order %s)" % (
                nm, np.abs(got["gv"] - first[nm]["gv"]).max(), [requests[j][0] for j in order]), request=nm)
            break
    # ---- mesh (stored and iterated)
    mesh = [int(v) for v in rng.integers(2, 4, 3)]
    ph.run_mesh(mesh, with_eigenvectors=True, with_group_velocities=True, is_mesh_symmetry=False)
    md = ph.get_mesh_dict()
    mq = np.array(md["qpoints"])
    sel = rng.choice(len(mq), size=min(5, len(mq)), replace=False)
    ph.run_qpoints(mq[sel], with_eigenvectors=True, with_group_velocities=True)
    qd = ph.get_qpoints_dict()
    obs["n_mesh"] = 1
    e = np.abs(np.sort(lam_of(np.array(md["frequencies"])[sel], factor), axis=1) - np.sort(lam_of(qd["frequencies"], factor), axis=1)).max()
    if e > 1e-10 * lscale:
        bad("mesh_vs_qpoints", "mesh eigenvalues differ from run_qpoints at the mesh's own q-points by %.3e" % e)
    gvm, gvq = np.array(md["group_velocities"])[sel], np.array(qd["group_velocities"])
    if np.abs(gvm - gvq).max() > 1e-8 * max(np.abs(gvq).max(), 1e-9):
        bad("mesh_gv_vs_qpoints", "mesh group velocities differ from run_qpoints by %.3e (scale %.3e)" % (np.abs(gvm - gvq).max(), np.abs(gvq).max()))
    evm = np.array(md["eigenvectors"])[sel]
    lm = lam_of(np.array(md["frequencies"])[sel], factor)
    for k, qi in enumerate(sel):
        ph.dynamical_matrix.run(mq[qi])
        Dk = np.array(ph.dynamical_matrix.dynamical_matrix)
        if np.abs(Dk @ evm[k] - evm[k] * lm[k][None, :]).max() > 1e-9 * dscale:
            bad("eigen_residual", "mesh: reported eigenvectors/frequencies do not satisfy D e = lambda e")
            break
    ph.init_mesh(mesh, with_eigenvectors=True, is_mesh_symmetry=False, use_iter_mesh=True)
    itf = np.array([np.array(f_) for f_, _ in ph.mesh])
    obs["n_itermesh"] = 1
    if itf.shape != np.array(md["frequencies"]).shape or np.abs(np.sort(lam_of(itf, factor), axis=1) - np.sort(lam_of(md["frequencies"], factor), axis=1)).max() > 1e-10 * lscale:
        bad("itermesh_vs_mesh", "iterated mesh frequencies differ from the stored mesh")
    # length mesh: Mesh forces Gamma-centre; IterMesh must sample the same grid
    try:
        ph.run_mesh(9.0, is_mesh_symmetry=False)
        q_m = np.array(ph.get_mesh_dict()["qpoints"])
        ph.init_mesh(9.0, with_eigenvectors=True, is_mesh_symmetry=False, use_iter_mesh=True)
        q_i = np.array(ph.mesh.qpoints)
        obs["n_length_mesh"] = 1
        a = sorted(map(tuple, np.round(q_m - np.floor(q_m + 1e-9), 8) % 1.0))
        b = sorted(map(tuple, np.round(q_i - np.floor(q_i + 1e-9), 8) % 1.0))
        if a != b:
            bad("itermesh_grid_differs", "length mesh: IterMesh samples a different grid than Mesh (%d vs %d points, Gamma-centring not forced)" % (len(b), len(a)), mesh_numbers=[int(v) for v in ph.mesh.mesh_numbers])
    except Exception as e:
        bad("length_mesh_exception", "length mesh raised %r" % (e,))
    # IterMesh without eigenvectors must still iterate
    try:
        ph.init_mesh(mesh, with_eigenvectors=False, is_mesh_symmetry=False, use_iter_mesh=True)
        f0 = np.array([np.array(f_) for f_, _ in ph.mesh])
        obs["n_itermesh_noeig"] = 1
        if np.abs(np.sort(lam_of(f0, factor), axis=1) - np.sort(lam_of(md["frequencies"], factor), axis=1)).max() > 1e-10 * lscale:
            bad("itermesh_vs_mesh", "iterated mesh (no eigenvectors) differs from the stored mesh")
    except Exception as e:
        bad("itermesh_without_eigenvectors_raises", "IterMesh with with_eigenvectors=False raised %r" % (e,))
    # ---- files
    tmp = tempfile.mkdtemp(prefix="c14_", dir=os.getcwd())
    cwd = os.getcwd()
    try:
        os.chdir(tmp)
        ph.run_qpoints(qs, with_eigenvectors=True, with_group_velocities=True, with_dynamical_matrices=False)
        d = ph.get_qpoints_dict()
        ph.write_yaml_qpoints_phonon()
        ph.write_hdf5_qpoints_phonon()
        txt = open("qpoints.yaml").read()
        y = yaml.safe_load(txt)
        dec = decimals_in(txt, "frequency:")
        fy = np.array([[b["frequency"] for b in p["band"]] for p in y["phonon"]])
        obs["n_files"] = obs.get("n_files", 0) + 2
        obs["printed_decimals_frequency"] = [dec]
        if np.abs(fy - np.array(d["frequencies"])).max() > ptol(dec, d["frequencies"]):
            bad("yaml_roundtrip", "qpoints.yaml frequencies differ from the results by %.3e (printed decimals %d)" % (np.abs(fy - np.array(d["frequencies"])).max(), dec), file="qpoints.yaml")
        ey = np.array([[[complex(*xy) for xy in b["eigenvector"][a]] for a in range(len(pr))] for p in y["phonon"] for b in p["band"]]) if "eigenvector" in y["phonon"][0]["band"][0] else None
        if ey is not None:
            ey = ey.reshape(len(qs), nb, nb)  # [q, band, component]
            ev = np.array(d["eigenvectors"]).transpose(0, 2, 1)
            dece = decimals_in(txt, "      - [")
            if np.abs(ey - ev).max() > 0.5000001 * 10.0 ** (-(dece or 14)) * 1.5:
                bad("yaml_roundtrip", "qpoints.yaml eigenvectors differ from the results by %.3e" % np.abs(ey - ev).max(), file="qpoints.yaml")
        with h5py.File("qpoints.hdf5", "r") as h:
            if not np.array_equal(np.array(h["frequency"]), np.array(d["frequencies"])):
                bad("hdf5_roundtrip", "qpoints.hdf5 frequencies are not bit-identical to the results", file="qpoints.hdf5")
            if "eigenvector" in h and not np.array_equal(np.array(h["eigenvector"]), np.array(d["eigenvectors"])):
                bad("hdf5_roundtrip", "qpoints.hdf5 eigenvectors are not bit-identical", file="qpoints.hdf5")
        # the same request with the dynamical matrices written out (--writedm): the block in the file is the matrix the object reports (which the option
        # matrix above has already tied to dynamical_matrix.run); crystals without inversion at every atom make it complex, so a transposed /
        # conjugated block is visible
        ph.run_qpoints(qs, with_eigenvectors=bool(lrng.integers(2)), with_dynamical_matrices=True)
        dW = ph.get_qpoints_dict()
        ph.write_yaml_qpoints_phonon()
        ph.write_hdf5_qpoints_phonon()
        txt = open("qpoints.yaml").read()
        y = yaml.safe_load(txt)
        Dw = np.array(dW["dynamical_matrices"])
        Dy = np.array([[[complex(row[2 * k_], row[2 * k_ + 1]) for k_ in range(nb)] for row in p["dynamical_matrix"]] for p in y["phonon"]])
        decd = decimals_in(txt, "  - [ ")
        obs["n_files"] += 2
        obs["n_dynamical_matrix_blocks_read_back"] = obs.get("n_dynamical_matrix_blocks_read_back", 0) + len(Dy)
        obs["n_dynamical_matrix_blocks_complex"] = obs.get("n_dynamical_matrix_blocks_complex", 0) + int(sum(np.abs(d_.imag).max() > 1e-6 * max(dscale, 1e-300) for d_ in Dw))
        if Dy.shape != Dw.shape or max(np.abs((Dy - Dw).real).max(), np.abs((Dy - Dw).imag).max()) > ptol(decd or 10, np.abs(Dw)):  # (each part is rounded on its own)
            bad("yaml_roundtrip", "qpoints.yaml dynamical_matrix block differs from the reported dynamical matrices by %.3e (scale %.3e; from its transpose by %.3e)" % (
                np.abs(Dy - Dw).max() if Dy.shape == Dw.shape else float("inf"), dscale, np.abs(Dy - Dw.transpose(0, 2, 1)).max() if Dy.shape == Dw.shape else float("inf")), file="qpoints.yaml")
        with h5py.File("qpoints.hdf5", "r") as h:
            if "dynamical_matrix" not in h or not np.array_equal(np.array(h["dynamical_matrix"]), Dw):
                bad("hdf5_roundtrip", "qpoints.hdf5 dynamical_matrix is missing or not bit-identical to the reported dynamical matrices", file="qpoints.hdf5")
        ph.run_band_structure([path], with_eigenvectors=False, with_group_velocities=True)
        bd = ph.get_band_structure_dict()
        ph.write_yaml_band_structure(filename="band.yaml")
        txt = open("band.yaml").read()
        y = yaml.safe_load(txt)
        dec = decimals_in(txt, "frequency:")
        fy = np.array([[b["frequency"] for b in p["band"]] for p in y["phonon"]])
        if np.abs(fy - np.array(bd["frequencies"][0])).max() > ptol(dec, bd["frequencies"][0]):
            bad("yaml_roundtrip", "band.yaml frequencies differ from the results by %.3e" % np.abs(fy - np.array(bd["frequencies"][0])).max(), file="band.yaml")
        decg = decimals_in(txt, "group_velocity:")
        gy = np.array([[b["group_velocity"] for b in p["band"]] for p in y["phonon"]])
        if np.abs(gy - np.array(bd["group_velocities"][0])).max() > ptol(decg, bd["group_velocities"][0]):
            bad("yaml_roundtrip", "band.yaml group velocities differ from the results by %.3e" % np.abs(gy - np.array(bd["group_velocities"][0])).max(), file="band.yaml")
        ph.run_mesh(mesh, with_eigenvectors=False, is_mesh_symmetry=True)
        md2 = ph.get_mesh_dict()
        ph.write_yaml_mesh()
        ph.write_hdf5_mesh()
        txt = open("mesh.yaml").read()
        y = yaml.safe_load(txt)
        dec = decimals_in(txt, "frequency:")
        fy = np.array([[b["frequency"] for b in p["band"]] for p in y["phonon"]])
        wy = np.array([p["weight"] for p in y["phonon"]])
        obs["n_files"] += 4
        if np.abs(fy - np.array(md2["frequencies"])).max() > ptol(dec, md2["frequencies"]) or not np.array_equal(wy, np.array(md2["weights"])):
            bad("yaml_roundtrip", "mesh.yaml frequencies/weights differ from the results", file="mesh.yaml")
        qy = np.array([p["q-position"] for p in y["phonon"]])
        if np.abs(qy - np.array(md2["qpoints"])).max() > 0.5000001e-7:
            bad("yaml_roundtrip", "mesh.yaml q-positions differ from the results", file="mesh.yaml")
        with h5py.File("mesh.hdf5", "r") as h:
            if not np.array_equal(np.array(h["frequency"]), np.array(md2["frequencies"])) or not np.array_equal(np.array(h["weight"]), np.array(md2["weights"])):
                bad("hdf5_roundtrip", "mesh.hdf5 frequencies/weights are not bit-identical", file="mesh.hdf5")
    finally:
        os.chdir(cwd)
        shutil.rmtree(tmp, ignore_errors=True)
    for k_, v_ in held0.items():
        obs["n_results_reread_at_the_end"] = obs.get("n_results_reread_at_the_end", 0) + 1
        if v_.shape != held0_copy[k_].shape or not np.array_equal(v_, held0_copy[k_], equal_nan=True):
            bad("handed_out_result_changed", "the '%s' array handed out by the first run_qpoints request was changed by later requests on the same object (max change %.3e)" % (
                k_, np.abs(v_ - held0_copy[k_]).max() if v_.shape == held0_copy[k_].shape else float("inf")), quantity=k_)
    obs["build_openmp" if build_is_omp else "build_serial"] = 1
    obs["nac_" + str(c["nac"])] = 1
    key = "%s|%s|%s|%s|%s|%s" % (c["crystal"]["name"], c["smat"], c["pmat"], c["nac"], c["full"], build_is_omp)
    return {"viol": viol, "nontrivial": bool(nb > 1 and dscale > 1e-12), "key": key, "obs": obs, "evals": obs.get("n_option_cells", 0) + obs.get("n_band_runs", 0) + 6,
            "sample": {"crystal": c["crystal"], "smat": c["smat"], "pmat": pm, "nac": c["nac"], "full": c["full"], "openmp_build": build_is_omp, "mesh": mesh}}


def summarize(results, obs, tier):
    inc = []
    for k in ("build_openmp", "build_serial", "n_option_cells", "n_band_runs", "n_mesh", "n_itermesh", "n_files", "nac_wang", "nac_gonze", "nac_None"):
        if obs.get(k, 0) == 0:
            inc.append("%s never exercised" % k)
    return {}, inc
