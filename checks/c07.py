"""C07 - force-constant symmetrisers are projections; compact and full layouts agree.

Relational monitor: fixed points, imposed invariances measured directly by the harness, idempotence, and the full-layout
routine on the harness-expanded array as the reference for the compact one.
"""

from __future__ import annotations

import numpy as np

PROP = "C07"
LEVEL = "exploration"
VARIANTS = ("omp",)
CASE_TIMEOUT = 1200
RULE = ("cases = zoo crystal x supercell (even and odd multiplicities, F/I/C/R primitive cells) x input class (space-group-projected fixed point | "
        "model+periodic noise | random periodic) x level 1..3; per case: fixed point, drift and permutation residuals after the routine, idempotence, "
        "compact routine vs full routine on the harness-expanded array, full->compact->full identity, set_tensor_symmetry_PJ (projection + harness space-group residual), "
        "show_drift_force_constants leaves the array unchanged; non-trivial = supercell multiplicity N>1; the number of self-inverse translations is recorded; "
        "distinct = (crystal, order, smat, pmat, class, level)")
ASSUMPTIONS = [
    "harness derives the pure translations and the compact<->full expansion from positions itself (not from Primitive.atomic_permutations)",
    "tolerance 1e-10 relative to max|FC|",
]
MIN_NONTRIVIAL = {"quick": 100, "thorough": 500}
TOL = 1e-10


def gen_cases(tier, seed):
    from vlib.gen import crystals, setup

    rng = np.random.default_rng([seed, 7])
    max_atoms = 48 if tier == "quick" else 100
    per = 6 if tier == "quick" else 80
    cases = []
    for name in crystals.ZOO:
        nu = crystals.natoms(name)
        smats = setup.smat_list(max(1, max_atoms // nu), rng=rng, n_random=3)
        for k in range(per):
            sm = smats[rng.integers(len(smats))]
            cases.append({"crystal": {"name": name, "order": ["asis", "interleave", "random"][rng.integers(3)], "order_seed": int(rng.integers(1000)),
                                      "int_shift": bool(rng.integers(2))},
                          "smat": sm, "pmat": ["P", "centring", "centring"][rng.integers(3)], "cls": ["fixed", "noisy", "random", "asr_only"][rng.integers(4)],
                          "level": int(rng.integers(1, 4)), "_threads": [1, 2, 3, 5, 7, 16][int(rng.integers(6))], "seed": int(rng.integers(10 ** 6)), "store_dense_svecs": bool(rng.integers(2)),
                          "_cost": (nu * setup.det3(sm)) ** 2})
    return cases


def expand(compact, p2s, perms, sub):
    """Harness expansion compact -> full using its own translations: full[t(p), t(j)] = compact[p, j]."""
    ns = compact.shape[1]
    full = np.zeros((ns, ns, 3, 3))
    for ip, p in enumerate(p2s):
        for t in range(len(perms)):
            i = perms[t][p]
            full[i, perms[t]] = compact[ip]
    return full


def residuals(full):
    n = full.shape[0]
    drift_row = np.abs(full.sum(axis=1)).max()
    drift_col = np.abs(full.sum(axis=0)).max()
    perm = np.abs(full - full.transpose(1, 0, 3, 2)).max()
    return float(max(drift_row, drift_col)), float(perm)


def run_case(c):
    r = _run_one(c)
    if c.get("seed", 0) % 2 == 0 and not r.get("skip") and not r.get("error"):
        # a second supercell of the same crystal in the same process: the same matrix with its axes permuted (same number of atoms and lattice
        # points, same pattern of the atom maps, ANOTHER translation table) - whatever the first one left behind in the process must not leak in.
        # (Inside one case on purpose: which cases share a worker process depends on the sharding, e.g. on the thread-count dimension.)
        Pm = np.array([[0, 1, 0], [0, 0, 1], [1, 0, 0]])
        c2 = dict(c, smat=(Pm @ np.array(c["smat"]) @ Pm.T).tolist(), seed=c["seed"] + 1)
        r2 = _run_one(c2)
        r.setdefault("obs", {})["twin_permuted_axes"] = 1
        for v in (r2.get("viol") or []):
            r.setdefault("viol", []).append(dict(v, twin="axes", msg="(second supercell in the same process: axes permuted) %s" % v.get("msg")))
        r["viol"] = (r.get("viol") or [])[:8]
    return r


def _run_one(c):
    from phonopy.harmonic.force_constants import (compact_fc_to_full_fc, full_fc_to_compact_fc, set_tensor_symmetry_PJ, show_drift_force_constants,
                                                  symmetrize_compact_force_constants, symmetrize_force_constants)
    from vlib.gen import models, setup

    ph, cd = setup.build_phonopy(dict(c, pmat=None))
    pm = setup.resolve_pmat(cd, c["pmat"])
    if pm != "P":
        ph, cd = setup.build_phonopy(dict(c, pmat=pm))
    sc, pr = ph.supercell, ph.primitive
    Ls, xs = np.array(sc.cell), np.array(sc.scaled_positions)
    ns = len(sc)
    rng = np.random.default_rng(c["seed"])
    perms, sub, tvecs = models.translations_from_positions(Ls, xs, pr.cell)
    N = len(perms)
    # self-inverse translations (t != 0 with 2t = lattice vector of the supercell)
    n_selfinv = sum(1 for t in range(N) if not np.array_equal(perms[t], np.arange(ns)) and np.array_equal(perms[t][perms[t]], np.arange(ns)))
    p2s = np.array(pr.p2s_map)
    try:
        rots, trans = setup.supercell_ops(ph)
    except models.SpglibFailed:
        return {"skip": "spglib_none_in_oracle"}
    model = models.project_ops(Ls, xs, rots, trans, rng, decay=2.5)
    if c["cls"] == "fixed":
        fc0 = model
    elif c["cls"] == "noisy":
        fc0 = model + 0.05 * np.abs(model).max() * models.random_periodic_fc(Ls, xs, pr.cell, rng)
    elif c["cls"] == "asr_only":
        # translationally invariant along both indices (zero drift) but NOT permutation symmetric: e.g. force constants that only had the
        # acoustic sum rule imposed
        fc0 = models.random_periodic_fc(Ls, xs, pr.cell, rng, permutation_symmetric=False, asr=True)
        fc0 = fc0 - fc0.sum(axis=0, keepdims=True) / ns  # column sums to zero as well (periodic arrays: row sums stay zero)
    else:
        fc0 = models.random_periodic_fc(Ls, xs, pr.cell, rng)
    scale = float(np.abs(fc0).max())
    if scale < 1e-12:
        return {"skip": "model vanishes"}
    viol, obs = [], {}
    lvl = c["level"]

    def bad(kind, msg, **kw):
        if len(viol) < 8:
            viol.append(dict(kind=kind, msg=msg, cls=c["cls"], level=lvl, N=N, n_selfinv=n_selfinv, has_selfinv=bool(n_selfinv), **kw))

    # ---- full routine
    full = np.array(fc0, dtype="double", order="C")
    symmetrize_force_constants(full, level=lvl)
    d, p = residuals(full)
    obs["full_runs"] = 1
    if c["cls"] == "fixed" and np.abs(full - fc0).max() > TOL * scale:
        bad("fixed_point_full", "symmetric force constants changed by the full symmetriser: %.3e (scale %.3e)" % (np.abs(full - fc0).max(), scale), layout="full")
    if d > TOL * scale * ns or p > TOL * scale:
        bad("invariance_full", "after full symmetrisation drift=%.3e permutation residual=%.3e (scale %.3e)" % (d, p, scale), layout="full")
    full2 = full.copy()
    symmetrize_force_constants(full2, level=lvl)
    if np.abs(full2 - full).max() > TOL * scale:
        bad("idempotence_full", "second application of the full symmetriser changes the result by %.3e" % np.abs(full2 - full).max(), layout="full")
    # ---- compact routine vs full routine on the expanded array
    comp0 = np.array(fc0[p2s], dtype="double", order="C")
    comp = comp0.copy()
    symmetrize_compact_force_constants(comp, pr, level=lvl)
    obs["compact_runs"] = 1
    ref = full[p2s]  # full routine on the expanded array (fc0 is periodic, so fc0 == expand(comp0))
    e_exp = np.abs(expand(comp0, p2s, perms, sub) - fc0).max()
    if e_exp > 1e-12 * scale:
        return {"error": "harness: periodic array does not equal its own expansion (%.3e)" % e_exp}
    e = float(np.abs(comp - ref).max())
    if e > TOL * scale:
        bad("compact_vs_full", "compact symmetriser differs from the full one on the expanded array by %.3e (scale %.3e)" % (e, scale), layout="compact", rel=e / scale)
    cfull = expand(comp, p2s, perms, sub)
    d, p = residuals(cfull)
    if d > TOL * scale * ns or p > TOL * scale:
        bad("invariance_compact", "after compact symmetrisation drift=%.3e permutation residual=%.3e (scale %.3e)" % (d, p, scale), layout="compact")
    if c["cls"] == "fixed" and np.abs(comp - comp0).max() > TOL * scale:
        bad("fixed_point_compact", "symmetric force constants changed by the compact symmetriser: %.3e" % np.abs(comp - comp0).max(), layout="compact")
    comp2 = comp.copy()
    symmetrize_compact_force_constants(comp2, pr, level=lvl)
    if np.abs(comp2 - comp).max() > TOL * scale:
        bad("idempotence_compact", "second application of the compact symmetriser changes the result by %.3e" % np.abs(comp2 - comp).max(), layout="compact")
    # ---- layout conversion
    back = compact_fc_to_full_fc(pr, full_fc_to_compact_fc(pr, fc0))
    if np.abs(back - fc0).max() > 1e-13 * scale:
        bad("layout_roundtrip", "full->compact->full changed a periodic array by %.3e" % np.abs(back - fc0).max())
    if np.abs(compact_fc_to_full_fc(pr, comp0) - fc0).max() > 1e-13 * scale:
        bad("layout_expand", "compact_fc_to_full_fc differs from the harness expansion")
    # ---- show_drift must not modify
    for arr, nm in ((full.copy(), "full"), (comp.copy(), "compact")):
        before = arr.copy()
        import contextlib
        import io

        with contextlib.redirect_stdout(io.StringIO()):
            show_drift_force_constants(arr, primitive=pr)
        if not np.array_equal(arr, before):
            bad("show_drift_mutates", "show_drift_force_constants changed the %s array by %.3e" % (nm, np.abs(arr - before).max()), layout=nm)
    # ---- space-group projection (full layout only)
    if ns <= 64:
        pj = np.array(fc0, dtype="double", order="C")
        set_tensor_symmetry_PJ(pj, sc.cell.T, sc.scaled_positions, ph.symmetry)
        obs["pj_runs"] = 1
        if c["cls"] == "fixed" and np.abs(pj - fc0).max() > TOL * scale:
            bad("fixed_point_pj", "symmetric force constants changed by set_tensor_symmetry_PJ: %.3e" % np.abs(pj - fc0).max())
        res = models.group_residual(pj, Ls, xs, rots, trans, max_ops=12)
        if res > 1e-9 * scale:
            bad("invariance_pj", "after set_tensor_symmetry_PJ the space-group residual is %.3e (scale %.3e)" % (res, scale))
        pj2 = pj.copy()
        set_tensor_symmetry_PJ(pj2, sc.cell.T, sc.scaled_positions, ph.symmetry)
        if np.abs(pj2 - pj).max() > 1e-9 * scale:
            bad("idempotence_pj", "second application of set_tensor_symmetry_PJ changes the result by %.3e" % np.abs(pj2 - pj).max())
    # ---- through the API (same objects)
    ph.force_constants = np.array(fc0[p2s], dtype="double", order="C")
    ph.symmetrize_force_constants(level=lvl, show_drift=False)
    if np.abs(ph.force_constants - comp).max() > 1e-13 * scale:
        bad("api_compact", "Phonopy.symmetrize_force_constants (compact) differs from the module function")
    obs["selfinv_cases"] = int(n_selfinv > 0)
    obs["no_selfinv_cases"] = int(n_selfinv == 0 and N > 1)
    obs["cls_" + c["cls"]] = 1
    key = "%s|%s|%s|%s|%s|%s" % (c["crystal"]["name"], c["crystal"]["order"], c["smat"], c["pmat"], c["cls"], lvl)
    return {"viol": viol, "nontrivial": bool(N > 1), "key": key, "obs": obs, "evals": 12,
            "sample": {"crystal": c["crystal"], "smat": c["smat"], "pmat": pm, "cls": c["cls"], "level": lvl, "N": N, "n_selfinverse_translations": n_selfinv,
                       "compact_vs_full_rel": e / scale}}


def summarize(results, obs, tier):
    inc = []
    if obs.get("selfinv_cases", 0) < 5:
        inc.append("fewer than 5 cases with a self-inverse translation")
    if obs.get("no_selfinv_cases", 0) < 5:
        inc.append("fewer than 5 cases with N>1 and no self-inverse translation")
    return {}, inc
