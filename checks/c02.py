"""C02 - phonons equal the lattice Fourier sum of the interatomic force constants.

Reference-model monitor: the closed-form pair-spring crystal is summed directly over the infinite lattice by
the harness (Cartesian positions, textbook formula); phonopy gets only the supercell force constants.
"""

from __future__ import annotations

import itertools

import numpy as np

PROP = "C02"
LEVEL = "exploration"
VARIANTS = ("omp",)
CASE_TIMEOUT = 1200
TOL = 1e-9
RULE = ("cases = zoo crystal x supercell (diag/non-diag) x primitive matrix x range regime (short: cutoff < 0.49 L_min, any q; "
        "long: cutoff up to 1.6 L_min, commensurate q only) x full/compact x dense/sparse svecs x {C, Py, run_qpoints}; "
        "non-trivial = max|D|>0, >=2 neighbour shells inside the range (long regime: range really exceeds L_min/2); "
        "distinct = (crystal, order, smat, pmat, regime, layout, svecs); "
        "additions of rounds 6-8: q-points and force constants in several containers / memory layouts (incl. integer-typed whole numbers); unit factor of the object; primitive cell listed in another atom order (positions_to_reorder); the other layout assigned to the same object and back; requests of 4097-8195 q-points; thread counts 1-16")
ASSUMPTIONS = [
    "primitive cell (positions, masses, order) taken from the Phonopy object; its tiling is checked by the C04 contract in the same run",
    "pair model tapered to zero at the cutoff so membership of a pair exactly at the cutoff is immaterial",
]
MIN_NONTRIVIAL = {"quick": 100, "thorough": 500}


def gen_cases(tier, seed):
    from vlib.gen import crystals, setup

    rng = np.random.default_rng([seed, 2])
    max_atoms = 54 if tier == "quick" else 128
    per = 8 if tier == "quick" else 110
    cases = []
    for name in crystals.ZOO:
        nu = crystals.natoms(name)
        smats = setup.smat_list(max(1, max_atoms // nu), rng=rng, n_random=3)
        smats = [m for m in smats if setup.det3(m) > 1] or smats
        for k in range(per):
            sm = smats[rng.integers(len(smats))]
            cases.append({
                "crystal": {"name": name, "order": ["asis", "interleave", "random"][rng.integers(3)], "order_seed": int(rng.integers(1000)),
                            "int_shift": bool(rng.integers(2)), "rot_seed": int(rng.integers(1000)) if rng.integers(3) == 0 else None},
                "smat": sm, "pmat": ["P", "centring", "centring"][rng.integers(3)],
                "regime": ["short", "long"][rng.integers(2)],
                "full": bool(rng.integers(2)), "store_dense_svecs": bool(rng.integers(2)),
                "qseed": int(rng.integers(10 ** 6)), "frac": float(rng.uniform(0.55, 1.6)), "_threads": [1, 2, 3, 5, 7, 16][int(rng.integers(6))],
                "_cost": nu * setup.det3(sm),
            })
    return cases


def commensurate_q(M):
    """All q (primitive reduced coords) with M q integral (q.T integral for every supercell lattice vector T = row of M),
    distinct mod 1; M = supercell basis rows in primitive lattice units (= S^T for a primitive unit cell)."""
    M = np.rint(M).astype(int)
    N = abs(int(round(np.linalg.det(M))))
    inv = np.linalg.inv(M)
    out = {}
    r = range(0, N + 1)
    for n in itertools.product(r, repeat=3):
        q = inv @ np.array(n)
        q = q - np.floor(q + 1e-9)
        key = tuple(np.round(q * N).astype(int) % N)
        if key not in out:
            out[key] = q
            if len(out) == N:
                break
    return list(out.values())


def run_case(c):
    from vlib.gen import models, setup

    # the unit factor of the object (frequencies = sqrt|eigenvalue| x factor on EVERY access path): the default, or another calculator's
    fsel = [None, None, 1.0, 521.4708, 3.3356e3, 0.07][c["qseed"] % 6]
    if fsel is not None:
        c = dict(c, factor=fsel)
    ph, cd = setup.build_phonopy(dict(c, pmat=None))
    pm = setup.resolve_pmat(cd, c["pmat"])
    if pm != "P":
        ph, cd = setup.build_phonopy(dict(c, pmat=pm))
    sc, pr = ph.supercell, ph.primitive
    Lmin = setup.minimal_sc_length(sc.cell)
    if c["regime"] == "short":
        cutoff = 0.49 * Lmin
    else:
        cutoff = c["frac"] * Lmin
    cutoff = min(cutoff, 9.0)
    r0 = max(1.2, 0.55 * cutoff)
    fc = models.pair_fc(sc.cell, sc.scaled_positions, sc.symbols, cutoff, r0=r0)
    shells = models.count_shells(sc.cell, sc.scaled_positions, cutoff)
    p2s = np.array(pr.p2s_map)
    # the force constants as the caller may hold them: C order, Fortran order, a strided window of a larger buffer, a non-owning view ...
    from vlib.gen.layout import ARRAY_KINDS, relayout as _rl

    _frng = np.random.default_rng(c["qseed"] + 21)
    fc_in, fckind = _rl(fc if c["full"] else fc[p2s], _frng, kind=ARRAY_KINDS[int(_frng.integers(len(ARRAY_KINDS)))])
    ph.force_constants = fc_in
    M = np.linalg.inv(pr.cell @ np.linalg.inv(sc.cell))  # supercell rows in primitive lattice units
    rng = np.random.default_rng(c["qseed"])
    qs = []
    comm = commensurate_q(M)
    for i in rng.choice(len(comm), size=min(4, len(comm)), replace=False):
        qs.append(("commensurate", comm[i] + rng.integers(-2, 3, size=3)))
    if c["regime"] == "short" or cutoff < 0.49 * Lmin:
        qs.append(("random", rng.uniform(-0.5, 0.5, 3)))
        qs.append(("random", rng.uniform(-0.5, 0.5, 3)))
        qs.append(("zone_boundary", np.array([[0.5, 0, 0], [0.5, 0.5, 0], [0.5, 0.5, 0.5], [0, 0.5, 0]][rng.integers(4)])))
        qs.append(("outside", rng.uniform(-3, 3, 3)))
        qs.append(("gamma", np.zeros(3)))
    G_ = rng.integers(-3, 4, size=3)
    qs.append(("reciprocal_lattice_vector", (G_ if G_.any() else np.array([1, 0, 0])).astype(float)))  # q = G != 0: D(G) = U D(0) U^+ with the intra-cell phases
    viol = []
    fscale = np.abs(fc).max() / float(np.min(pr.masses))
    if fscale < 1e-8:
        return {"skip": "no_interaction_inside_range", "nontrivial": False}
    maxerr = 0.0
    maxD = 0.0
    nq = {}
    factor = ph.unit_conversion_factor
    dm = ph.dynamical_matrix
    from vlib.gen.layout import relayout

    lrng = np.random.default_rng(c.get("qseed", 0) + 5)
    qarr, qkind = relayout(np.array([q for _, q in qs], float), lrng)  # list / Fortran order / strided view / read-only ...: same numbers
    ph.run_qpoints(qarr, with_dynamical_matrices=True)
    qd = ph.get_qpoints_dict()
    for k, (kind, q) in enumerate(qs):
        D = models.exact_dm(pr.cell, pr.scaled_positions, pr.symbols, pr.masses, cutoff, q, r0=r0)
        sD = max(np.abs(D).max(), fscale)
        maxD = max(maxD, np.abs(D).max())
        nq[kind] = nq.get(kind, 0) + 1
        got = {}
        dm.run(relayout(q, lrng)[0], lang="C")
        got["C"] = np.array(dm.dynamical_matrix)
        dm.run(relayout(q, lrng)[0], lang="Py")
        got["Py"] = np.array(dm.dynamical_matrix)
        got["run_qpoints"] = np.array(qd["dynamical_matrices"][k])
        for path, G in got.items():
            e = float(np.abs(G - D).max())
            maxerr = max(maxerr, e / max(sD, 1e-300))
            if not np.isfinite(e) or e > TOL * max(sD, 1e-12):
                viol.append({"kind": "dm_mismatch", "msg": "D(q) via %s differs from the lattice sum by %.3e (max|D| %.3e) at %s q=%s" % (path, e, sD, kind, np.round(q, 4).tolist()),
                             "path": path, "qkind": kind, "full": c["full"], "dense": c["store_dense_svecs"], "regime": c["regime"]})
        # frequencies = sign(lambda) sqrt|lambda| * factor : compare through eigenvalues
        lam = np.linalg.eigvalsh(D)
        f = np.array(qd["frequencies"][k])
        lam_rep = np.sign(f) * (f / factor) ** 2
        el = float(np.abs(np.sort(lam_rep) - np.sort(lam)).max())
        if el > 1e-8 * max(np.abs(lam).max(), fscale):
            viol.append({"kind": "freq_mismatch", "msg": "frequencies^2/factor^2 differ from eigenvalues of the lattice sum by %.3e at %s" % (el, kind), "qkind": kind})
    # the other layout assigned to the SAME object afterwards (compact after full / full after compact: everything derived from the shape of the
    # first array - index tables of the compiled kernel - must follow), then the first one again
    relay = {}
    if len(sc) != len(pr):
        for step_, full_ in enumerate((not c["full"], c["full"])):
            ph.force_constants = np.array(fc if full_ else fc[p2s], dtype="double", order="C")
            dm_ = ph.dynamical_matrix
            for kind, q in qs[:3] + qs[-1:]:
                D = models.exact_dm(pr.cell, pr.scaled_positions, pr.symbols, pr.masses, cutoff, q, r0=r0)
                sD = max(np.abs(D).max(), fscale)
                for lang_ in ("C", "Py"):
                    dm_.run(q, lang=lang_)
                    e = float(np.abs(np.array(dm_.dynamical_matrix) - D).max())
                    if not np.isfinite(e) or e > TOL * max(sD, 1e-12):
                        viol.append({"kind": "dm_mismatch", "msg": "after assigning the %s layout to an object that held the %s layout: D(q) via %s differs from the lattice sum by %.3e (max|D| %.3e) at %s q=%s" % (
                            "full" if full_ else "compact", "compact" if full_ else "full", lang_, e, sD, kind, np.round(q, 4).tolist()), "path": lang_, "qkind": kind, "full": full_,
                            "dense": c["store_dense_svecs"], "regime": c["regime"], "layout_switch": True})
                        break
        relay = {"layout_switches_on_one_object": 2}
    # thousands of q-points in one request (a dense band path or mesh; routines that work through the q-points in blocks only show their block
    # handling there): sampled entries, among them the neighbours of the powers of two, against the lattice sum
    big = {}
    if len(pr) <= 4 and c["qseed"] % 2 == 0 and (c["regime"] == "short" or cutoff < 0.49 * Lmin):  # (general q: only where the model's range fits into the supercell)
        nbig = int([4097, 5000, 8193][int(lrng.integers(3))] + lrng.integers(0, 3))
        qbig = lrng.uniform(-0.5, 0.5, (nbig, 3))
        ph.run_qpoints(qbig, with_dynamical_matrices=True)
        qd_b = ph.get_qpoints_dict()
        pick = sorted(set([0, 1, 1023, 1024, 2047, 2048, 4095, 4096, 4097, nbig - 2, nbig - 1] + lrng.integers(0, nbig, 6).tolist()))
        for k_ in [k_ for k_ in pick if k_ < nbig]:
            D = models.exact_dm(pr.cell, pr.scaled_positions, pr.symbols, pr.masses, cutoff, qbig[k_], r0=r0)
            sD = max(np.abs(D).max(), fscale)
            e = float(np.abs(np.array(qd_b["dynamical_matrices"][k_]) - D).max())
            lam_b = np.sign(qd_b["frequencies"][k_]) * (np.array(qd_b["frequencies"][k_]) / factor) ** 2
            e2 = float(np.abs(np.sort(lam_b) - np.sort(np.linalg.eigvalsh(D))).max())
            if not np.isfinite(e) or e > TOL * max(sD, 1e-12) or e2 > 1e-8 * max(np.abs(np.linalg.eigvalsh(D)).max(), fscale):
                viol.append({"kind": "dm_mismatch", "msg": "request of %d q-points: entry %d differs from the lattice sum (D by %.3e, eigenvalues by %.3e, max|D| %.3e)" % (nbig, k_, e, e2, sD),
                             "path": "run_qpoints", "qkind": "large_batch", "full": c["full"], "dense": c["store_dense_svecs"], "regime": c["regime"]})
                break
        big = {"large_qpoint_batches": 1, "largest_batch": [nbig]}
    # the same crystal with the atoms of the primitive cell listed in another order (the public positions_to_reorder argument of Primitive /
    # get_primitive: its primitive-to-supercell map is then not ascending), the dynamical matrix built the way a direct user of the module builds it
    reorder = {}
    if len(pr) > 1:
        from phonopy.harmonic.dynamical_matrix import get_dynamical_matrix
        from phonopy.structure.cells import Primitive

        perm = lrng.permutation(len(pr))
        if np.array_equal(perm, np.arange(len(pr))):
            perm = perm[::-1]
        pr2 = Primitive(sc, pr.primitive_matrix, symprec=ph.symmetry.tolerance, store_dense_svecs=c["store_dense_svecs"], positions_to_reorder=np.array(pr.scaled_positions)[perm])
        p2s2 = np.array(pr2.p2s_map)
        reorder = {"reordered_primitive": 1, "reordered_p2s_not_ascending": int((np.diff(p2s2) < 0).any())}
        if sorted(p2s2.tolist()) != sorted(p2s.tolist()) or not np.allclose(np.array(pr2.masses), np.array(pr.masses)[perm]):
            viol.append({"kind": "reordered_primitive", "msg": "Primitive(positions_to_reorder=permuted positions) does not list the same atoms in the requested order: p2s_map %s vs %s permuted by %s" % (
                p2s2.tolist(), p2s.tolist(), perm.tolist())})
        else:
            # (a square array IS the full layout for phonopy, which tells the layouts apart by shape: when the supercell is the primitive cell itself
            # the rows re-ordered by p2s_map would not be "compact" constants but other full constants)
            dm2 = get_dynamical_matrix(np.array(fc if c["full"] or len(sc) == len(pr2) else fc[p2s2], dtype="double", order="C"), sc, pr2)
            for kind, q in qs:
                D = models.exact_dm(pr2.cell, pr2.scaled_positions, pr2.symbols, pr2.masses, cutoff, q, r0=r0)
                sD = max(np.abs(D).max(), fscale)
                for lang in ("C", "Py"):
                    dm2.run(q, lang=lang)
                    e = float(np.abs(np.array(dm2.dynamical_matrix) - D).max())
                    if not np.isfinite(e) or e > TOL * max(sD, 1e-12):
                        viol.append({"kind": "dm_mismatch", "msg": "primitive cell with atoms in the order %s (p2s_map %s): D(q) via %s differs from the lattice sum by %.3e (max|D| %.3e) at %s q=%s" % (
                            perm.tolist(), p2s2.tolist(), lang, e, sD, kind, np.round(q, 4).tolist()), "path": lang, "qkind": kind, "full": c["full"], "dense": c["store_dense_svecs"], "regime": c["regime"],
                            "reordered_primitive": True})
    nontrivial = bool(maxD > 0 and shells >= 2 and (c["regime"] == "short" or cutoff > 0.5 * Lmin))
    key = "%s|%s|%s|%s|%s|%s|%s" % (c["crystal"]["name"], c["crystal"]["order"], c["smat"], c["pmat"], c["regime"], c["full"], c["store_dense_svecs"])
    multi = ph.primitive.get_smallest_vectors()[1]
    maxmult = int(np.max(multi[..., 0])) if multi.ndim == 3 else int(np.max(multi))
    return {"viol": viol[:6], "nontrivial": nontrivial, "key": key, "evals": len(qs) * 3,
            "obs": {"q_" + k: v for k, v in nq.items()} | reorder | big | relay | {"qlayout_" + qkind: 1, "fclayout_" + fckind: 1, "regime_" + c["regime"]: 1, "compact": int(not c["full"]), "sparse_svecs": int(not c["store_dense_svecs"]),
                                                            "ws_boundary_multiplicity_gt1": int(maxmult > 1), "shells": [shells]},
            "maxerr": maxerr,
            "sample": {"crystal": c["crystal"], "smat": c["smat"], "pmat": pm, "cutoff": cutoff, "Lmin": Lmin, "shells": shells, "regime": c["regime"],
                       "nq": len(qs), "max_rel_err": maxerr}}


def summarize(results, obs, tier):
    errs = [r["maxerr"] for r in results if r.get("maxerr") is not None]
    inc = []
    if obs.get("ws_boundary_multiplicity_gt1", 0) < 5:
        inc.append("fewer than 5 cases with Wigner-Seitz boundary multiplicities > 1")
    return {"max_rel_err_observed": max(errs) if errs else None}, inc
