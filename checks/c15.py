"""C15 - a Phonopy object always answers from its current state, whatever its history.

History monitor: every public state-changing operation applied to one Phonopy instance is recorded (call event before,
outcome after); after the history the answers are compared with a freshly constructed object given the final structure,
force constants, NAC parameters and masses (the executable reference model). Aliasing monitor: caller arrays are
check-summed across the whole history; handed-out arrays are mutated and the answers re-queried.
"""

from __future__ import annotations

import copy
import itertools
import zlib

import numpy as np

PROP = "C15"
LEVEL = "exploration"
VARIANTS = ("omp",)
CASE_TIMEOUT = 1200
RULE = ("histories over the alphabet {set FC full|compact, produce FC full|compact, symmetrize, symmetrize by space group, cutoff radius, NAC wang|gonze|none, "
        "masses, dataset (type 1), generate_displacements, copy()} : ALL histories of length <= 2 (quick) / <= 3 (thorough) from three initial states "
        "(no NAC, Wang, Gonze-Lee) on small cells, plus random histories of length 4..8; queries after each history: eigenvalues at 3 q (Gamma with direction when NAC), "
        "D e = lambda e, group velocity, free energy on a mesh; oracle = fresh Phonopy built from the final state; aliasing probes for every array handed in or out; "
        "non-trivial = history changes the spectrum w.r.t. the initial state or is an aliasing probe; distinct = (initial state, crystal, op sequence); "
        "additions of rounds 6-8: throw-away queries with unusual options before the deciding questions; which operation rewrote a caller's array is recorded after every operation; arrays handed out must survive replacing operations; one hand-in in three is a non-owning window of a larger buffer")
ASSUMPTIONS = [
    "the reference is the real class freshly constructed from (unit cell, supercell/primitive matrices, final force constants, final NAC parameters, final masses)",
    "an operation that raises (e.g. produce_force_constants without forces) is recorded as an outcome and leaves the state to be judged as it is",
]
MIN_NONTRIVIAL = {"quick": 150, "thorough": 1500}

OPS = ["fc_full", "fc_compact", "produce_full", "produce_compact", "symmetrize", "symmetrize_sg", "cutoff", "nac_wang", "nac_gonze", "nac_none", "masses",
       "dataset", "generate_displacements", "copy", "nac_default", "nac_gonze_cut", "fc_same_object"]  # nac_default: dict without 'method' (documented default Gonze-Lee); nac_gonze_cut: with G_cutoff and Lambda
INITS = ["none", "wang", "gonze"]
CELLS = ["rocksalt", "cscl", "zincblende"]


def gen_cases(tier, seed):
    rng = np.random.default_rng([seed, 15])
    maxlen = 2 if tier == "quick" else 3
    hist = [()]
    for L in range(1, maxlen + 1):
        hist += list(itertools.product(range(len(OPS)), repeat=L))
    cases = []
    batch = []
    k = 0
    for init in INITS:
        for h in hist:
            batch.append({"init": init, "ops": list(h), "cell": CELLS[k % len(CELLS)]})
            k += 1
            if len(batch) == 16:
                cases.append({"kind": "histories", "batch": batch, "seed": int(rng.integers(10 ** 6)), "_cost": 16})
                batch = []
    if batch:
        cases.append({"kind": "histories", "batch": batch, "seed": int(rng.integers(10 ** 6)), "_cost": len(batch)})
    nrand = 60 if tier == "quick" else 600
    batch = []
    for i in range(nrand):
        L = int(rng.integers(4, 9))
        batch.append({"init": INITS[i % 3], "ops": [int(v) for v in rng.integers(0, len(OPS), L)], "cell": CELLS[(i // 3 + i) % len(CELLS)],
                      "fsf": 1.07 if rng.integers(5) == 0 else None, "order": ["asis", "interleave"][int(rng.integers(2))]})  # (i//3 + i): every cell meets every initial NAC state
        if len(batch) == 10:
            cases.append({"kind": "histories", "batch": batch, "seed": int(rng.integers(10 ** 6)), "_cost": 30})
            batch = []
    if batch:
        cases.append({"kind": "histories", "batch": batch, "seed": int(rng.integers(10 ** 6)), "_cost": 30})
    for cell in CELLS:
        for init in INITS:
            cases.append({"kind": "aliasing", "cell": cell, "init": init, "seed": int(rng.integers(10 ** 6)), "_cost": 10})
    return cases


class World:
    """One Phonopy instance under test plus everything the harness needs to act on it."""

    def __init__(self, cell, init, seed, fsf=None, order="asis"):
        import warnings

        from vlib.gen import crystals, models, nac as nacgen, setup

        self.setup, self.models, self.nacgen = setup, models, nacgen
        self.case = {"crystal": {"name": cell, "order": order, "order_seed": 3}, "smat": np.eye(3, dtype=int).tolist()}
        # constructor options that are part of the object's fixed identity (the fresh reference object gets the same ones)
        self.over = {} if fsf is None else {"frequency_scale_factor": float(fsf)}
        warnings.simplefilter("ignore", DeprecationWarning)
        ph, cd = setup.build_phonopy(self.case)
        self.case["pmat"] = cd["pmat"] if cd["pmat"] != "P" else None
        ph, cd = setup.build_phonopy(self.case, **self.over)
        self.ph = ph
        self.rng = np.random.default_rng(seed)
        self.k = 0
        sc = ph.supercell
        self.L, self.x, self.sym = np.array(sc.cell), np.array(sc.scaled_positions), list(sc.symbols)
        self.p2s = np.array(ph.primitive.p2s_map)
        self.m0 = np.array(ph.masses)
        ph.generate_displacements(distance=0.03)
        fc = self.model()
        ph.forces = setup.harmonic_forces_type1(ph, fc)
        ph.produce_force_constants()
        # the harness' own record of what was set last (never what the object reports: an object that merges or keeps stale entries would
        # report them, and a reference built from that report would inherit the defect)
        self.nac_last = None
        self.masses_last = None
        if init != "none":
            nacp0 = nacgen.random_nac(ph, self.rng, method=init)
            self.nac_last = copy.deepcopy(nacp0)
            ph.nac_params = nacp0
        self.handed_in = []  # (label, array, checksum)
        self.modified_by = {}  # id(array) -> name of the operation after which a handed-in array was first found changed
        self.handed_out = []  # [array the object handed out (no copy), checksum, label]
        self.handed_out_rewritten = []  # (label, operation) - a REPLACING operation wrote into an array handed out earlier
        self.log = []

    def model(self):
        self.k += 1
        return self.models.pair_fc(self.L, self.x, self.sym, cutoff=3.6 + 0.35 * (self.k % 5), r0=1.6 + 0.2 * (self.k % 3))

    def hand_in(self, label, arr):
        self.handed_in.append((label, arr, zlib.crc32(np.ascontiguousarray(arr).tobytes())))
        return arr

    INPLACE = ("symmetrize", "symmetrize_sg", "cutoff", "fc_same_object")  # operations documented to work on the force constants in place

    def apply(self, op):
        ev = self._apply(op)
        name = OPS[op]
        # which operation touched what the caller holds: arrays handed in ...
        for label, arr, crc in self.handed_in:
            if id(arr) not in self.modified_by and zlib.crc32(np.ascontiguousarray(arr).tobytes()) != crc:
                self.modified_by[id(arr)] = name
        # ... and arrays handed out: the documented zero-copy getter means in-place operations show through (known), but an operation that
        # REPLACES the force constants (set, produce) must bind new storage instead of writing into what an earlier caller still holds
        keep = []
        for arr, crc, label in self.handed_out:
            if zlib.crc32(np.ascontiguousarray(arr).tobytes()) != crc:
                if name not in self.INPLACE:
                    self.handed_out_rewritten.append((label, name))
            else:
                keep.append([arr, crc, label])
        self.handed_out = keep
        if self.rng.integers(3) == 0 and self.ph.force_constants is not None:
            a_ = self.ph.force_constants
            self.handed_out.append([a_, zlib.crc32(np.ascontiguousarray(a_).tobytes()), "force_constants handed out after '%s'" % name])
        return ev

    def _apply(self, op):
        ph = self.ph
        name = OPS[op]
        ev = {"op": name}
        try:
            if name in ("fc_full", "fc_compact"):
                a_ = np.array(self.model() if name == "fc_full" else self.model()[self.p2s], dtype="double", order="C")
                if self.rng.integers(3) == 0:
                    # a C-contiguous window of a larger buffer the caller owns (a slot of a stack of constants): NOT an array that owns its
                    # data, so the documented copy avoidance does not apply - the object must work on its own copy
                    stack_ = np.zeros((2,) + a_.shape)
                    stack_[1] = a_
                    a_ = stack_[1]
                self.last_fc = self.hand_in("force_constants(%s)" % name[3:], a_)
                ph.force_constants = self.last_fc
            elif name == "fc_same_object":
                # the caller updates its own array in place and assigns the SAME object again (documented: no copy is made, so this is how
                # a caller changes the constants without reallocating); the object must answer for the new values
                arr = getattr(self, "last_fc", None)
                if arr is None or arr is not ph.force_constants:
                    arr = ph.force_constants
                arr *= 1.04
                self.handed_in = [(l_, a_, (zlib.crc32(np.ascontiguousarray(a_).tobytes()) if a_ is arr else crc_)) for l_, a_, crc_ in self.handed_in]
                ph.force_constants = arr
            elif name in ("produce_full", "produce_compact"):
                ph.produce_force_constants(calculate_full_force_constants=(name == "produce_full"))
            elif name == "symmetrize":
                ph.symmetrize_force_constants(level=1, show_drift=False)
            elif name == "symmetrize_sg":
                if ph.force_constants.shape[0] != ph.force_constants.shape[1]:
                    ev["skipped"] = "compact layout not supported by this routine"
                else:
                    ph.symmetrize_force_constants_by_space_group(show_drift=False)
            elif name == "cutoff":
                ph.set_force_constants_zero_with_radius(3.2)
            elif name in ("nac_wang", "nac_gonze", "nac_default", "nac_gonze_cut"):
                nacp = self.nacgen.random_nac(ph, self.rng, method="wang" if name == "nac_wang" else "gonze")
                if name == "nac_default":
                    nacp.pop("method")
                if name == "nac_gonze_cut":
                    nacp["G_cutoff"] = float(self.rng.uniform(1.0, 1.6))
                    nacp["Lambda"] = float(self.rng.uniform(0.12, 0.3))
                self.hand_in("nac_params[born]", nacp["born"])
                self.hand_in("nac_params[dielectric]", nacp["dielectric"])
                record = copy.deepcopy(nacp)
                ph.nac_params = nacp
                self.nac_last = record
            elif name == "nac_none":
                ph.nac_params = None
                self.nac_last = None
            elif name == "masses":
                m = self.hand_in("masses", np.array(ph.masses) * float(self.rng.uniform(0.7, 1.4)))
                record = np.array(m).copy()
                ph.masses = m
                self.masses_last = record
            elif name == "dataset":
                ds = copy.deepcopy(ph.dataset)
                if "first_atoms" in ds:
                    fc = self.model()
                    n = len(self.x)
                    for d in ds["first_atoms"]:
                        u = np.zeros((n, 3))
                        u[d["number"]] = d["displacement"]
                        d["forces"] = self.hand_in("dataset.forces", -np.einsum("ijab,jb->ia", fc, u))
                    ph.dataset = ds
            elif name == "generate_displacements":
                ph.generate_displacements(distance=0.02 + 0.01 * (self.k % 3))
            elif name == "copy":
                cp = ph.copy()
                # act on the copy: the origin must not notice
                cp.force_constants = np.array(self.model(), dtype="double", order="C")
                cp.masses = np.array(cp.masses) * 1.7
                ev["copy_has_fc_before_set"] = False
            ev["outcome"] = "ok"
        except Exception as e:
            ev["outcome"] = "raised %s: %s" % (type(e).__name__, str(e)[:80])
        self.log.append(ev)
        return ev


def queries(ph, with_thermal=True):
    """Answers of a Phonopy object: eigenvalues, residuals, group velocity, free energy."""
    factor = ph.unit_conversion_factor
    out = {}
    has_nac = ph.nac_params is not None
    qs = [[0.31, 0.12, -0.27], [0.5, 0.0, 0.0]]
    ph.run_qpoints(qs, with_eigenvectors=True, with_dynamical_matrices=True, with_group_velocities=True)
    d = ph.get_qpoints_dict()
    f = np.array(d["frequencies"])
    out["lam"] = np.sign(f) * (f / factor) ** 2
    out["gv"] = np.array(d["group_velocities"])
    D, ev = np.array(d["dynamical_matrices"]), np.array(d["eigenvectors"])
    out["resid"] = float(max(np.abs(D[i] @ ev[i] - ev[i] * out["lam"][i][None, :]).max() for i in range(len(qs))))
    ph.run_qpoints([[0, 0, 0]], nac_q_direction=[1.0, 0.3, 0.2] if has_nac else None)
    f0 = np.array(ph.get_qpoints_dict()["frequencies"][0])
    out["lam0"] = np.sign(f0) * (f0 / factor) ** 2
    # the three cells of the object carry the same masses (everything that reads supercell / unit-cell masses - copy(), save(), random
    # displacements, modulations - depends on it)
    out["masses_super"] = np.array(ph.supercell.masses, float)
    out["masses_unit"] = np.array(ph.unitcell.masses, float)
    if with_thermal:
        ph.run_mesh([2, 2, 2])
        ph.run_thermal_properties(t_min=300, t_max=300, t_step=10)
        out["F"] = float(ph.get_thermal_properties_dict()["free_energy"][0])
        # further access paths (each keeps objects of its own inside Phonopy): band path, mesh with eigenvectors -> displacement matrices, smearing DOS
        path = np.array([[0.05, 0.02, 0.01], [0.21, 0.13, 0.4], [0.5, 0.5, 0.0]])
        ph.run_band_structure([path], with_group_velocities=True)
        fb = np.array(ph.get_band_structure_dict()["frequencies"][0])
        out["band"] = np.sign(fb) * (fb / factor) ** 2
        ph.run_mesh([2, 2, 3], with_eigenvectors=True, is_mesh_symmetry=False, is_gamma_center=True)
        fm = np.array(ph.get_mesh_dict()["frequencies"])
        out["mesh"] = np.sign(fm) * (fm / factor) ** 2
        ph.run_thermal_displacement_matrices(t_min=300, t_max=300, t_step=10, freq_min=0.05 * max(np.abs(fm).max(), 1e-12))
        out["tdm"] = np.array(ph.get_thermal_displacement_matrices_dict()["thermal_displacement_matrices"])[0]
        top = max(float(np.abs(fm).max()), 1e-6)
        ph.run_total_dos(sigma=0.07 * top, freq_min=0.0, freq_max=1.1 * top, freq_pitch=top / 11.0, use_tetrahedron_method=False)
        out["dos"] = np.array(ph.get_total_dos_dict()["total_dos"])
    return out


def noise_queries(ph, rng, obs):
    """Queries with unusual options whose answers are thrown away: they change no state, so later answers must not depend on them
    (Phonopy keeps its group-velocity, mesh, band and DOS helper objects between calls - an option of one query must not leak into the next)."""
    has_nac = ph.nac_params is not None
    for _ in range(int(rng.integers(1, 4))):
        k = int(rng.integers(7))
        obs["noise_query_%d" % k] = obs.get("noise_query_%d" % k, 0) + 1
        d = rng.standard_normal(3).tolist()
        if k == 0:
            ph.run_qpoints([[0, 0, 0], [0.5, 0.0, 0.0], [0.25, 0.25, 0.0]], nac_q_direction=d, with_group_velocities=True)
        elif k == 1:
            ph.run_qpoints([[0.1, 0.2, 0.3]], with_eigenvectors=True, with_group_velocities=True, nac_q_direction=d if has_nac else None)
        elif k == 2:
            ph.run_band_structure([np.array([[0, 0, 0], [0.25, 0, 0], [0.5, 0, 0]]), np.array([[0.5, 0, 0], [0.5, 0.25, 0], [0.5, 0.5, 0]])], with_group_velocities=True, is_band_connection=True)
        elif k == 3:
            ph.run_mesh([3, 3, 2], shift=[0.5, 0.5, 0.5], with_group_velocities=True, is_time_reversal=False)
            ph.run_thermal_properties(t_min=0, t_max=100, t_step=50, cutoff_frequency=0.5)
        elif k == 4:
            ph.get_group_velocity_at_q([0.5, 0.5, 0.0])
            ph.get_frequencies_with_eigenvectors([0.5, 0.0, 0.5])
        elif k == 5:
            ph.run_mesh([2, 2, 2], with_eigenvectors=True, is_mesh_symmetry=False)
            ph.run_projected_dos(sigma=0.3, use_tetrahedron_method=False)
            ph.run_thermal_displacements(t_min=0, t_max=100, t_step=100, freq_min=0.1, direction=[1, 0, 0])
        else:
            ph.run_qpoints([[0.5, 0.0, 0.0]], with_group_velocities=True, nac_q_direction=[1, 0, 0])
            ph.run_band_structure([np.array([[0.0, 0, 0], [0.5, 0.5, 0.5]])], with_group_velocities=True)


def fresh_from(w):
    """The executable reference: a new object from the final structure, force constants, NAC parameters and masses."""
    ph = w.ph
    fr, _ = w.setup.build_phonopy(w.case, **w.over)
    if w.masses_last is not None:
        # the reference gets the final masses through the PhonopyAtoms constructor (per unit-cell atom, mapped with the maps of the untouched
        # object), not through the setter under test
        pr_, sc_ = fr.primitive, fr.supercell
        unit_m = [float(np.array(w.masses_last)[pr_.p2p_map[pr_.s2p_map[sc_.u2s_map[i]]]]) for i in range(len(fr.unitcell))]
        fr, _ = w.setup.build_phonopy(dict(w.case, masses=unit_m), **w.over)
    fr.force_constants = np.array(ph.force_constants, dtype="double", order="C").copy()
    if w.nac_last is not None:
        fr.nac_params = copy.deepcopy(w.nac_last)
    return fr


def compare(a, b, scale):
    probs = []
    for k in ("lam", "lam0"):
        e = np.abs(np.sort(a[k], axis=-1) - np.sort(b[k], axis=-1)).max()
        if e > 1e-10 * scale:
            probs.append("%s differs by %.3e (scale %.3e)" % (k, e, scale))
    e = np.abs(a["gv"] - b["gv"]).max()
    if e > 1e-7 * max(np.abs(b["gv"]).max(), 1e-6):
        # degenerate subspaces may be resolved differently only if the matrices differ; identical state => identical numbers
        probs.append("group velocity differs by %.3e" % e)
    if "F" in a and abs(a["F"] - b["F"]) > 1e-9 * max(abs(b["F"]), 1e-3):
        probs.append("free energy differs by %.3e" % abs(a["F"] - b["F"]))
    for k in ("masses_super", "masses_unit"):
        if k in a and k in b and (a[k].shape != b[k].shape or np.abs(a[k] - b[k]).max() > 1e-12 * max(np.abs(b[k]).max(), 1e-300)):
            probs.append("%s differ from the fresh object's: %s vs %s" % (k, np.round(a[k], 4).tolist()[:6], np.round(b[k], 4).tolist()[:6]))
    for k in ("band", "mesh"):
        if k in a and k in b:
            e = np.abs(np.sort(a[k], axis=-1) - np.sort(b[k], axis=-1)).max() if a[k].shape == b[k].shape else np.inf
            if e > 1e-10 * scale:
                probs.append("%s eigenvalues differ by %.3e (scale %.3e)" % (k, e, scale))
    for k, rel in (("tdm", 1e-8), ("dos", 1e-8)):
        if k in a and k in b:
            e = np.abs(a[k] - b[k]).max() if a[k].shape == b[k].shape else np.inf
            if e > rel * max(np.abs(b[k]).max(), 1e-12):
                probs.append("%s differs by %.3e (max %.3e)" % (k, e, np.abs(b[k]).max()))
    return probs


def run_case(c):
    viol, obs, keys = [], {}, []

    def bad(kind, msg, **kw):
        if len(viol) < 10:
            viol.append(dict(kind=kind, msg=msg, **kw))

    if c["kind"] == "histories":
        for hi, h in enumerate(c["batch"]):
            w = World(h["cell"], h["init"], c["seed"] + hi, fsf=h.get("fsf"), order=h.get("order", "asis"))
            obs["interleaved_cells"] = obs.get("interleaved_cells", 0) + int(h.get("order") == "interleave")
            obs["with_frequency_scale_factor"] = obs.get("with_frequency_scale_factor", 0) + int(h.get("fsf") is not None)
            base = queries(w.ph, with_thermal=False)
            names = [OPS[o] for o in h["ops"]]
            for o in h["ops"]:
                w.apply(o)
            obs["histories_len_%d" % len(h["ops"])] = obs.get("histories_len_%d" % len(h["ops"]), 0) + 1
            obs["ops_applied"] = obs.get("ops_applied", 0) + len(h["ops"])
            obs["ops_raised"] = obs.get("ops_raised", 0) + sum(1 for e in w.log if e.get("outcome", "").startswith("raised"))
            try:
                if (c["seed"] + hi) % 2 == 0:
                    # (every second history: answers nobody keeps, asked with unusual options, between the last operation and the questions that count)
                    noise_queries(w.ph, np.random.default_rng(c["seed"] + 31 * hi), obs)
                got = queries(w.ph)
            except Exception as e:
                bad("query_after_history_raised", "query after history %s raised %r" % (names, e), ops=names, init=h["init"])
                continue
            if got["resid"] > 1e-9 * max(np.abs(got["lam"]).max(), 1e-300):
                bad("eigen_residual", "after history %s reported (D, w, e) do not satisfy D e = lambda e (%.3e)" % (names, got["resid"]), ops=names, init=h["init"])
            fr = fresh_from(w)
            want = queries(fr)
            scale = max(np.abs(want["lam"]).max(), 1e-300)
            probs = compare(got, want, scale)
            if probs:
                bad("stale_state", "history %s from initial state '%s'%s: %s" % (names, h["init"], " (frequency_scale_factor=%s)" % h["fsf"] if h.get("fsf") else "", "; ".join(probs)),
                    ops=names, init=h["init"], last_op=names[-1] if names else None, frequency_scale_factor=bool(h.get("fsf")))
            # caller arrays must be intact after the whole history
            for label, arr, crc in w.handed_in:
                if zlib.crc32(np.ascontiguousarray(arr).tobytes()) != crc:
                    later = names
                    by = w.modified_by.get(id(arr))
                    bad("caller_array_modified", "array handed in as %s (%s) was modified by operation '%s' in history %s" % (
                        label, "owning its data" if arr.flags.owndata else "a view of a larger buffer of the caller", by, names), handed_in=label, ops=names,
                        fc_copy_avoidance=bool(label.startswith("force_constants")), modified_by=by, owns_data=bool(arr.flags.owndata))
            for label, by in w.handed_out_rewritten[:2]:
                bad("handed_out_rewritten", "%s was overwritten by the replacing operation '%s' (history %s): new force constants must get new storage" % (label, by, names),
                    handed_out="force_constants", modified_by=by, ops=names)
            obs["handed_out_tracked"] = obs.get("handed_out_tracked", 0) + len(w.handed_out)
            changed = bool(np.abs(np.sort(got["lam"], axis=-1) - np.sort(base["lam"], axis=-1)).max() > 1e-8 * scale or
                           np.abs(np.sort(got["lam0"]) - np.sort(base["lam0"])).max() > 1e-8 * scale)
            if changed:
                keys.append("%s|%s|%s" % (h["init"], h["cell"], ",".join(names)))
        return {"viol": viol, "nontrivial": bool(keys), "keys": keys, "evals": len(c["batch"]), "obs": obs,
                "sample": {"kind": "histories", "first": [{"init": h["init"], "cell": h["cell"], "ops": [OPS[o] for o in h["ops"]]} for h in c["batch"][:3]]}}

    # ---------------- aliasing probes
    w = World(c["cell"], c["init"], c["seed"])
    ph = w.ph
    n_probe = 0

    def answers():
        return queries(ph, with_thermal=False)

    def differs(a, b):
        s = max(np.abs(a["lam"]).max(), 1e-300)
        return bool(np.abs(np.sort(a["lam"], axis=-1) - np.sort(b["lam"], axis=-1)).max() > 1e-9 * s or np.abs(np.sort(a["lam0"]) - np.sort(b["lam0"])).max() > 1e-9 * s)

    # P1: force constants handed in, then symmetrised / cut off by the object
    for layout in ("full", "compact"):
        A = np.array(w.model() if layout == "full" else w.model()[w.p2s], dtype="double", order="C")
        A += 1e-3 * np.random.default_rng(1).standard_normal(A.shape)  # so that symmetrisation really changes something
        keep = A.copy()
        ph.force_constants = A
        ph.symmetrize_force_constants(level=1, show_drift=False)
        n_probe += 1
        if not np.array_equal(A, keep):
            bad("caller_array_modified", "force constants handed in (%s) were rewritten by symmetrize_force_constants()" % layout, handed_in="force_constants(%s)" % layout,
                fc_copy_avoidance=True, probe="P1", modified_by="symmetrize", owns_data=True)
        A2 = np.array(w.model() if layout == "full" else w.model()[w.p2s], dtype="double", order="C")
        keep2 = A2.copy()
        ph.force_constants = A2
        ph.set_force_constants_zero_with_radius(3.0)
        n_probe += 1
        if not np.array_equal(A2, keep2):
            bad("caller_array_modified", "force constants handed in (%s) were rewritten by set_force_constants_zero_with_radius()" % layout,
                handed_in="force_constants(%s)" % layout, fc_copy_avoidance=True, probe="P1", modified_by="cutoff", owns_data=True)
    # P1b: a non-owning window of a larger buffer handed in (no copy avoidance is promised for it), in an ordinary object and in one with the
    # deprecated frequency_scale_factor (where the object keeps its own record of the unscaled constants): in-place operations must not reach it
    for fsf_ in (None, 1.07):
        w2 = World(c["cell"], c["init"], c["seed"] + 5, fsf=fsf_)
        for layout in ("full", "compact"):
            m_ = np.array(w2.model() if layout == "full" else w2.model()[w2.p2s], dtype="double", order="C")
            m_ += 1e-3 * np.random.default_rng(2).standard_normal(m_.shape)
            stack_ = np.zeros((2,) + m_.shape)
            stack_[1] = m_
            view_ = stack_[1]
            keep_ = view_.copy()
            w2.ph.force_constants = view_
            w2.ph.symmetrize_force_constants(level=1, show_drift=False)
            w2.ph.set_force_constants_zero_with_radius(3.0)
            n_probe += 1
            if not np.array_equal(view_, keep_):
                bad("caller_array_modified", "a window of a larger buffer handed in as force constants (%s%s) was rewritten by the in-place operations" % (
                    layout, ", object with frequency_scale_factor" if fsf_ else ""), handed_in="force_constants(%s)" % layout, fc_copy_avoidance=True, probe="P1b",
                    modified_by="symmetrize", owns_data=False, frequency_scale_factor=bool(fsf_))
    # P2: handed-out force constants alias internal state
    ph.force_constants = np.array(w.model(), dtype="double", order="C")
    a0 = answers()
    out = ph.force_constants
    out *= 1.5
    n_probe += 1
    if differs(a0, answers()):
        bad("handed_out_aliases_state", "mutating the array returned by Phonopy.force_constants changes later answers without any setter call", handed_out="force_constants", probe="P2")
    # P3: NAC dict handed in, mutated later, then an unrelated setter
    nacp = w.nacgen.random_nac(ph, w.rng, method="wang")
    ph.nac_params = nacp
    a0 = answers()
    nacp["born"] *= 1.7
    ph.masses = np.array(ph.masses)  # unrelated setter with unchanged values
    n_probe += 1
    if differs(a0, answers()):
        bad("handed_in_aliases_state", "mutating the NAC dict after handing it in changes later answers (leaks in at the next unrelated setter)", handed_in="nac_params", probe="P3")
    # P4: handed-out NAC dict
    ph.nac_params = w.nacgen.random_nac(ph, w.rng, method="wang")
    a0 = answers()
    got = ph.nac_params
    got["born"][...] = got["born"] * 2.0
    ph.masses = np.array(ph.masses)
    n_probe += 1
    if differs(a0, answers()):
        bad("handed_out_aliases_state", "mutating the dict returned by Phonopy.nac_params changes later answers", handed_out="nac_params", probe="P4")
    ph.nac_params = None
    # P5: masses handed in and out
    m = np.array(ph.masses) * 1.1
    ph.masses = m
    a0 = answers()
    m *= 3.0
    n_probe += 1
    if differs(a0, answers()) or not np.allclose(np.array(ph.masses) * 3.0, m):
        bad("handed_in_aliases_state", "mutating the masses array after handing it in changes the object", handed_in="masses", probe="P5")
    mo = ph.masses
    try:
        mo *= 2.0
    except ValueError:
        pass
    n_probe += 1
    ph.force_constants = np.array(ph.force_constants)
    if differs(a0, answers()):
        bad("handed_out_aliases_state", "mutating the array returned by Phonopy.masses changes later answers", handed_out="masses", probe="P5")
    # P6: dataset handed in (type 1): deep copy expected
    ph.generate_displacements(distance=0.03)
    ds = copy.deepcopy(ph.dataset)
    fc = w.model()
    for d in ds["first_atoms"]:
        u = np.zeros((len(w.x), 3))
        u[d["number"]] = d["displacement"]
        d["forces"] = -np.einsum("ijab,jb->ia", fc, u)
    ph.dataset = ds
    ph.produce_force_constants()
    f_before = np.array(ph.force_constants).copy()
    for d in ds["first_atoms"]:
        d["forces"] *= 0.0
    ph.produce_force_constants()
    n_probe += 1
    if np.abs(np.array(ph.force_constants) - f_before).max() > 1e-12 * np.abs(f_before).max():
        bad("handed_in_aliases_state", "mutating the dataset dict after handing it in changes produce_force_constants()", handed_in="dataset", probe="P6")
    # P7: forces / displacements getters
    fo = ph.forces
    keepF = np.array(fo).copy()
    fo *= 0.0
    ph.produce_force_constants()
    n_probe += 1
    if np.abs(np.array(ph.force_constants) - f_before).max() > 1e-12 * np.abs(f_before).max():
        bad("handed_out_aliases_state", "mutating the array returned by Phonopy.forces changes produce_force_constants()", handed_out="forces", probe="P7")
    ph.forces = keepF
    # P8: copy() is independent in both directions
    ph.force_constants = np.array(w.model(), dtype="double", order="C")
    a0 = answers()
    cp = ph.copy()
    n_probe += 1
    shared = []
    for nm in ("unitcell", "supercell", "primitive"):
        A_, B_ = getattr(ph, nm), getattr(cp, nm)
        if A_ is B_:
            shared.append(nm)
        for attr in ("_scaled_positions", "_cell", "_masses"):
            x_, y_ = getattr(A_, attr, None), getattr(B_, attr, None)
            if isinstance(x_, np.ndarray) and isinstance(y_, np.ndarray) and np.shares_memory(x_, y_):
                shared.append(nm + "." + attr)
    cp.masses = np.array(cp.masses) * 2.0
    cp.force_constants = np.array(w.model(), dtype="double", order="C") * 0.5
    if shared or differs(a0, answers()):
        bad("copy_not_independent", "copy() shares mutable state with its origin: %s" % (shared or "answers of the origin changed after acting on the copy"), probe="P8")
    obs["aliasing_probes"] = n_probe
    return {"viol": viol, "nontrivial": True, "key": "alias|%s|%s" % (c["cell"], c["init"]), "obs": obs, "evals": n_probe,
            "sample": {"kind": "aliasing", "cell": c["cell"], "init": c["init"], "probes": n_probe}}


def summarize(results, obs, tier):
    inc = []
    for k in ("histories_len_0", "histories_len_1", "histories_len_2", "aliasing_probes", "ops_applied"):
        if obs.get(k, 0) == 0:
            inc.append("%s never exercised" % k)
    return {"histories_by_length": {k: v for k, v in obs.items() if k.startswith("histories_len_")}}, inc
