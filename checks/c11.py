"""C11 - densities of states are non-negative, normalised and additive.

Post-condition monitors on TotalDos / ProjectedDos / TetrahedronMesh / TetrahedronMethod:
sum rules, additivity, monotonicity, dJ/dw = I, C vs Py on consistent frequency fields, with the (sorted position of the
central vertex) x (interval containing w) table measured by the harness for the inputs it fed.
"""

from __future__ import annotations

import itertools

import numpy as np

PROP = "C11"
LEVEL = "exploration"
VARIANTS = ("omp",)
CASE_TIMEOUT = 1200
RULE = ("kind real: zoo crystals (pair model) x meshes (incl. 1 along an axis, shifted) x symmetry on/off x frequency grids (ascending, descending, shuffled): tetrahedron cumulative weights above the top sum to "
        "the number of bands, smearing DOS (normal|Cauchy) integrates to it, total/PDOS non-negative, sum over atoms and over 3N xyz components equals the total at "
        "every frequency (same mesh), direction-projected PDOS >= 0, C tetrahedron-DOS kernel equals the Python iterator; "
        "kind field: synthetic frequency fields (smooth, rough, exact ties, constant bands) on grids whose reciprocal lattice makes each of the 4 main diagonals "
        "the shortest: J in [0,1], non-decreasing, (J(w+h)-J(w-h))/2h = I(w) for two h, TetrahedronMethod C == Py per grid point, 4x5 (central-vertex position x interval) table; "
        "non-trivial = more than one grid point and a non-constant field; distinct = full parameter tuple; "
        "additions of rounds 6-8: frequency window as Python ints / numpy ints / float32 / mixtures = float window; descending and shuffled grids")
ASSUMPTIONS = [
    "frequencies w are drawn generically (never exactly at a vertex value) where C and Py are compared",
    "smearing quadrature: trapezoid on the code's own frequency grid spanning +-10 sigma at pitch <= sigma/5, tolerance 2e-3 (normal); Cauchy tails truncated analytically",
]
MIN_NONTRIVIAL = {"quick": 40, "thorough": 300}

DIAG_LATTICES = {  # reciprocal lattices (column vectors) whose shortest main diagonal is number k
    0: [[1, 0, 0], [0, 1, 0], [0, 0, 1]],
}


def gen_cases(tier, seed):
    rng = np.random.default_rng([seed, 11])
    cases = []
    names = ["sc", "fcc", "rocksalt", "hcp", "rutile", "tric2", "wurtzite", "mono_p", "ortho_c", "rhomb_bi", "zincblende", "cscl"]
    for i in range(24 if tier == "quick" else 160):
        name = names[i % len(names)]
        mesh = [int(v) for v in rng.integers(1, 6, 3)]
        if rng.integers(3) == 0:
            k = int(rng.integers(2, 6))
            mesh = [k, k, k]
        cases.append({"kind": "real", "crystal": {"name": name, "order": ["asis", "random"][rng.integers(2)], "order_seed": int(rng.integers(100))}, "mesh": mesh,
                      "shift": [None, [0.5, 0.5, 0.5], [0.5, 0, 0]][rng.integers(3)] if rng.integers(3) == 0 else None, "gamma": bool(rng.integers(2)),
                      "_threads": [1, 2, 3, 5, 7, 16][int(rng.integers(6))], "sigma_rel": float(rng.uniform(0.02, 0.08)), "smear": ["Normal", "Cauchy"][rng.integers(2)], "seed": int(rng.integers(10 ** 6)), "_cost": 6})
    for i in range(48 if tier == "quick" else 400):
        cases.append({"kind": "field", "diag": i % 4, "mesh": [int(v) for v in rng.integers(1, 5, 3)], "field": ["smooth", "rough", "ties", "constant"][i // 4 % 4],
                      "seed": int(rng.integers(10 ** 6))})
    return cases


def main_diagonal_index(rec_micro):
    """Index (0..3) of the shortest main diagonal of the parallelepiped spanned by the columns of rec_micro (first minimum, as the code does)."""
    a, b, c = np.array(rec_micro).T
    d = [a + b + c, -a + b + c, a - b + c, a + b - c]
    ln = [np.linalg.norm(v) for v in d]
    return int(np.argmin(ln)), ln


def lattice_for_diag(k, rng):
    """Reciprocal lattice (columns) for which main diagonal k is uniquely the shortest."""
    base = np.eye(3) + 0.05 * rng.standard_normal((3, 3))
    # shear so that the wanted diagonal shrinks
    signs = [np.array([1, 1, 1.0]), np.array([-1, 1, 1.0]), np.array([1, -1, 1.0]), np.array([1, 1, -1.0])][k]
    # choose a,b,c with s_a a + s_b b + s_c c short: make them nearly coplanar with sum ~ small vector
    a = np.array([1.0, 0.1, 0.0])
    b = np.array([-0.45, 0.9, 0.05])
    c = np.array([-0.45, -0.85, 0.35])
    V = np.array([a * signs[0], b * signs[1], c * signs[2]]).T  # columns
    V = V @ (np.eye(3) + 0.02 * rng.standard_normal((3, 3)))
    Q, _ = np.linalg.qr(rng.standard_normal((3, 3)))
    return Q @ V


def run_case(c):
    viol, obs = [], {}

    def bad(kind, msg, **kw):
        if len(viol) < 8:
            viol.append(dict(kind=kind, msg=msg, **kw))

    if c["kind"] == "real":
        from phonopy.phonon.dos import TotalDos
        from phonopy.phonon.tetrahedron_mesh import TetrahedronMesh
        from vlib.gen import models, setup

        case = {"crystal": c["crystal"], "smat": np.diag([2, 2, 2]).tolist()}
        ph, cd = setup.build_phonopy(case)
        if cd["pmat"] != "P":
            ph, cd = setup.build_phonopy(dict(case, pmat=cd["pmat"]))
        sc = ph.supercell
        fc = models.pair_fc(sc.cell, sc.scaled_positions, sc.symbols, cutoff=4.8)
        if np.abs(fc).max() < 1e-8:
            return {"skip": "no interaction"}
        ph.force_constants = fc
        nb = 3 * len(ph.primitive)
        mesh = c["mesh"]
        feat = dict(mesh=mesh, shift=c["shift"], gamma=c["gamma"])
        # --- symmetry-reduced mesh: J normalisation and total DOS >= 0
        for sym in (True, False):
            ph.run_mesh(mesh, shift=c["shift"], is_gamma_center=c["gamma"], is_mesh_symmetry=sym, with_eigenvectors=not sym)
            m = ph.mesh
            fr, w = np.array(m.frequencies), np.array(m.weights)
            fmax, fmin = float(fr.max()), float(fr.min())
            if fmax - fmin < 1e-6 * max(abs(fmax), 1e-12):
                return {"skip": "flat spectrum on this mesh (TotalDos cannot build its default frequency grid)"}
            span = max(fmax - fmin, 1e-3)
            thm = TetrahedronMesh(ph.primitive, fr, m.mesh_numbers, np.array(m.grid_address, dtype="int64"), np.array(m.grid_mapping_table, dtype="int64"), m.ir_grid_points)
            wpts = np.array([fmin - 0.1 * span, fmin + 0.31 * span, fmin + 0.62 * span, fmax + 1e-6 * span + 1e-9, fmax + 0.2 * span])
            thm.set(value="J", frequency_points=wpts)
            acc = np.zeros((len(wpts), nb))
            for i, iw in enumerate(thm):
                acc += iw * w[i]
                # per grid point: J*prod(mesh) in [0,1], non-decreasing in w
                jj = iw * np.prod(m.mesh_numbers)
                if (jj < -1e-10).any() or (jj > 1 + 1e-10).any():
                    bad("J_range", "cumulative tetrahedron weight outside [0,1]: min %.3e max %.12g" % (jj.min(), jj.max()), sym=sym, **feat)
                if (np.diff(jj, axis=0) < -1e-10).any():
                    bad("J_monotone", "cumulative tetrahedron weight decreases with frequency", sym=sym, **feat)
            obs["n_J_norm"] = obs.get("n_J_norm", 0) + 1
            if np.abs(acc[-1] - 1).max() > 1e-10 or np.abs(acc[-2] - 1).max() > 1e-10:
                bad("J_normalisation", "sum_gp w J(above top) per band = %s (expected 1)" % np.round(acc[-1], 12).tolist()[:6], sym=sym, **feat)
            if np.abs(acc[0]).max() > 1e-12:
                bad("J_normalisation", "cumulative weight below the bottom of the spectrum is not zero", sym=sym, **feat)
            # tetrahedron total DOS: C kernel vs Python iterator; non-negative
            td = TotalDos(m, use_tetrahedron_method=True)
            td.set_draw_area(fmin - 0.05 * span, fmax + 0.05 * span, span / 57.3)
            td.run()
            dC = np.array(td.dos)
            td2 = TotalDos(m, use_tetrahedron_method=True)
            td2.set_draw_area(fmin - 0.05 * span, fmax + 0.05 * span, span / 57.3)
            td2._openmp_thm = False
            td2.run()
            dP = np.array(td2.dos)
            obs["n_dos_c_vs_py"] = obs.get("n_dos_c_vs_py", 0) + 1
            if (dC < -1e-10).any():
                bad("negative_dos", "tetrahedron total DOS negative: %.3e" % dC.min(), sym=sym, **feat)
            if np.abs(dC - dP).max() > 1e-9 * max(dC.max(), 1e-12):
                bad("dos_c_vs_py", "tetrahedron total DOS: compiled kernel and Python iterator differ by %.3e (max %.3e)" % (np.abs(dC - dP).max(), dC.max()), sym=sym, **feat)
            # frequency grids in any order (descending draw area, shuffled points): the density at a frequency does not depend on where the
            # frequency stands in the list; compiled driver vs Python iterator on the very same grid
            prng = np.random.default_rng(c["seed"] + 17)
            asc = np.array(td.frequency_points)
            for label in ("descending", "shuffled"):
                t3 = TotalDos(m, use_tetrahedron_method=True)
                if label == "descending":
                    t3.set_draw_area(fmax + 0.05 * span, fmin - 0.05 * span, -span / 57.3)
                    pts = np.array(t3.frequency_points)
                else:
                    t3.set_draw_area(fmin - 0.05 * span, fmax + 0.05 * span, span / 57.3)
                    pts = np.array(asc[prng.permutation(len(asc))], dtype="double", order="C")
                    t3._frequency_points = pts
                if len(pts) < 3:
                    continue
                t3.run()
                d3 = np.array(t3.dos)
                t4 = TotalDos(m, use_tetrahedron_method=True)
                t4._frequency_points = pts.copy()
                t4._openmp_thm = False
                t4.run()
                d4 = np.array(t4.dos)
                obs["n_grid_order"] = obs.get("n_grid_order", 0) + 1
                if (d3 < -1e-10).any():
                    bad("negative_dos", "tetrahedron total DOS negative on a %s frequency grid: %.3e" % (label, d3.min()), sym=sym, grid=label, **feat)
                if d3.shape != d4.shape or np.abs(d3 - d4).max() > 1e-9 * max(d4.max(), 1e-12):
                    bad("dos_c_vs_py", "tetrahedron total DOS on a %s frequency grid: compiled kernel and Python iterator differ by %.3e (max %.3e)" % (
                        label, np.abs(d3 - d4).max() if d3.shape == d4.shape else np.inf, d4.max()), sym=sym, grid=label, **feat)
                if label == "shuffled":
                    srt = np.argsort(pts)
                    if np.abs(d3[srt] - dC).max() > 1e-9 * max(dC.max(), 1e-12):
                        bad("dos_grid_order", "tetrahedron total DOS changes when the same frequency points are given in another order: %.3e (max %.3e)" % (np.abs(d3[srt] - dC).max(), dC.max()), sym=sym, grid=label, **feat)
                else:
                    t5 = TotalDos(m, use_tetrahedron_method=True)
                    t5._frequency_points = np.array(pts[::-1], dtype="double", order="C")  # the same points, ascending
                    t5.run()
                    d5 = np.array(t5.dos)[::-1]
                    if np.abs(d3 - d5).max() > 1e-9 * max(d5.max(), 1e-12):
                        bad("dos_grid_order", "tetrahedron total DOS on a descending grid differs from the same points in ascending order by %.3e (max %.3e)" % (np.abs(d3 - d5).max(), d5.max()), sym=sym, grid=label, **feat)
        # --- full mesh with eigenvectors: additivity
        sigma = c["sigma_rel"] * span
        for tet in (True, False):
            kw = dict(freq_min=fmin - (0.05 * span if tet else 10 * sigma), freq_max=fmax + (0.05 * span if tet else 10 * sigma), freq_pitch=(span / 41.7 if tet else sigma / 6))
            if tet:
                ph.run_total_dos(use_tetrahedron_method=True, **kw)
            else:
                ph.run_total_dos(sigma=sigma, use_tetrahedron_method=False, **kw)
            if not tet and c["smear"] == "Cauchy":
                from phonopy.phonon.dos import TotalDos as TD

                t_ = TD(ph.mesh, sigma=sigma)
                t_.set_smearing_function("Cauchy")
                t_.set_draw_area(kw["freq_min"], kw["freq_max"], kw["freq_pitch"])
                t_.run()
                tot = np.array(t_.dos)
                fpts = np.array(t_.frequency_points)
            else:
                dd = ph.get_total_dos_dict()
                tot, fpts = np.array(dd["total_dos"]), np.array(dd["frequency_points"])
            if (tot < -1e-10).any():
                bad("negative_dos", "total DOS negative (%s): %.3e" % ("tetrahedron" if tet else "smearing", tot.min()), **feat)
            if not tet:
                integ = float(np.trapezoid(tot, fpts))
                obs["n_smearing_norm"] = obs.get("n_smearing_norm", 0) + 1
                if c["smear"] == "Cauchy":
                    # tails beyond the window: 1 - (1/pi)[atan((b-f)/g) - atan((a-f)/g)] per mode
                    fr_all = np.array(ph.mesh.frequencies)
                    wq = np.array(ph.mesh.weights)[:, None] / np.sum(ph.mesh.weights)
                    inside = (np.arctan((fpts[-1] - fr_all) / sigma) - np.arctan((fpts[0] - fr_all) / sigma)) / np.pi
                    want = float((wq * inside).sum())
                else:
                    want = float(nb)
                if abs(integ - want) > 2e-3 * nb:
                    bad("smearing_normalisation", "smearing DOS (%s) integrates to %.6f, expected %.6f" % (c["smear"], integ, want), smear=c["smear"], **feat)
            if not tet:
                # set_sigma on an existing object (whichever width the object then uses - in the pinned tree the smearing function keeps the width
                # it was created with until set_smearing_function is called again): the density must stay normalised and non-negative
                from phonopy.phonon.dos import TotalDos as TDs

                t_a = TDs(ph.mesh, sigma=2.5 * sigma)
                t_a.set_sigma(sigma)
                t_a.set_draw_area(fmin - 25 * sigma, fmax + 25 * sigma, sigma / 6)
                t_a.run()
                da_, fa_ = np.array(t_a.dos), np.array(t_a.frequency_points)
                obs["n_set_sigma"] = obs.get("n_set_sigma", 0) + 1
                if (da_ < -1e-10).any():
                    bad("negative_dos", "total DOS negative after set_sigma: %.3e" % da_.min(), **feat)
                if abs(float(np.trapezoid(da_, fa_)) - nb) > 2e-3 * nb:
                    bad("smearing_normalisation", "after set_sigma(%.4g) on an object created with width %.4g the smearing DOS integrates to %.6f, expected %d" % (
                        sigma, 2.5 * sigma, float(np.trapezoid(da_, fa_)), nb), smear="Normal", set_sigma=True, **feat)
            if not tet and c["smear"] == "Cauchy":
                # the projected DOS with the same (Cauchy) smearing function, through the class that the API wraps: additivity and its defining sum
                from phonopy.phonon.dos import ProjectedDos as PD

                for xyz in (False, True):
                    p_ = PD(ph.mesh, sigma=sigma, xyz_projection=xyz)
                    p_.set_smearing_function("Cauchy")
                    p_.set_draw_area(kw["freq_min"], kw["freq_max"], kw["freq_pitch"])
                    p_.run()
                    pdc = np.array(p_.projected_dos)
                    obs["n_additivity_cauchy"] = obs.get("n_additivity_cauchy", 0) + 1
                    if (pdc < -1e-10).any():
                        bad("negative_pdos", "projected DOS (Cauchy) negative: %.3e" % pdc.min(), tet=tet, xyz=xyz, smear="Cauchy", **feat)
                    e = np.abs(pdc.sum(axis=0) - tot).max() if pdc.shape[1] == len(tot) else np.inf
                    if e > 1e-9 * max(tot.max(), 1e-12):
                        bad("pdos_additivity", "Cauchy smearing: sum of %s PDOS differs from the total DOS by %.3e (max %.3e)" % ("xyz" if xyz else "atom", e, tot.max()), tet=tet, xyz=xyz, smear="Cauchy", **feat)
            for xyz in (False, True):
                if tet:
                    ph.run_projected_dos(use_tetrahedron_method=True, xyz_projection=xyz, **kw)
                else:
                    ph.run_projected_dos(sigma=sigma, use_tetrahedron_method=False, xyz_projection=xyz, **kw)
                pd = np.array(ph.get_projected_dos_dict()["projected_dos"])
                obs["n_additivity"] = obs.get("n_additivity", 0) + 1
                if pd.shape[0] != (nb if xyz else nb // 3):
                    bad("pdos_shape", "projected DOS has %d components, expected %d" % (pd.shape[0], nb if xyz else nb // 3))
                if (pd < -1e-10).any():
                    bad("negative_pdos", "projected DOS negative: %.3e" % pd.min(), tet=tet, xyz=xyz, **feat)
                if not (c["smear"] == "Cauchy" and not tet):
                    e = np.abs(pd.sum(axis=0) - tot).max()
                    if e > 1e-9 * max(tot.max(), 1e-12):
                        bad("pdos_additivity", "sum of %s PDOS differs from the total DOS by %.3e (max %.3e)" % ("xyz" if xyz else "atom", e, tot.max()), tet=tet, xyz=xyz, **feat)
            if tet:
                # the same through the API with a descending grid (freq_min > freq_max, negative pitch)
                kd = dict(freq_min=kw["freq_max"], freq_max=kw["freq_min"], freq_pitch=-kw["freq_pitch"])
                ph.run_total_dos(use_tetrahedron_method=True, **kd)
                dd = ph.get_total_dos_dict()
                totd, fd = np.array(dd["total_dos"]), np.array(dd["frequency_points"])
                ph.run_projected_dos(use_tetrahedron_method=True, **kd)
                pdd_ = np.array(ph.get_projected_dos_dict()["projected_dos"])
                obs["n_grid_order"] = obs.get("n_grid_order", 0) + 1
                if len(fd) > 2:
                    if pdd_.shape[1] != len(totd) or np.abs(pdd_.sum(axis=0) - totd).max() > 1e-9 * max(totd.max(), 1e-12):
                        bad("pdos_additivity", "descending frequency grid: sum of atom PDOS differs from the total DOS", tet=tet, grid="descending", **feat)
                    from phonopy.phonon.dos import TotalDos as TD2

                    t6 = TD2(ph.mesh, use_tetrahedron_method=True)
                    t6._frequency_points = np.array(fd[::-1], dtype="double", order="C")
                    t6.run()
                    if np.abs(np.array(t6.dos)[::-1] - totd).max() > 1e-9 * max(totd.max(), 1e-12):
                        bad("dos_grid_order", "run_total_dos on a descending grid differs from the same points in ascending order by %.3e" % np.abs(np.array(t6.dos)[::-1] - totd).max(), tet=tet, grid="descending", **feat)
            if tet:
                # a ProjectedDos object used again (another draw area, then the first one): same answers as its first run, and still additive
                from phonopy.phonon.dos import ProjectedDos as PD2

                for xyz in (True, False):
                    p2_ = PD2(ph.mesh, use_tetrahedron_method=True, xyz_projection=xyz)
                    p2_.set_draw_area(kw["freq_min"], kw["freq_max"], kw["freq_pitch"])
                    p2_.run()
                    first = np.array(p2_.projected_dos).copy()
                    p2_.set_draw_area(kw["freq_min"], kw["freq_max"], kw["freq_pitch"] * 2)
                    p2_.run()
                    p2_.set_draw_area(kw["freq_min"], kw["freq_max"], kw["freq_pitch"])
                    p2_.run()
                    third = np.array(p2_.projected_dos)
                    obs["n_pdos_object_rerun"] = obs.get("n_pdos_object_rerun", 0) + 1
                    if first.shape != third.shape or np.abs(first - third).max() > 1e-12 * max(np.abs(first).max(), 1e-300):
                        bad("pdos_rerun_differs", "ProjectedDos (tetrahedron, xyz=%s) run again on the same object differs from its first run by %.3e (max %.3e)" % (
                            xyz, np.abs(first - third).max() if first.shape == third.shape else np.inf, np.abs(first).max()), tet=tet, xyz=xyz, **feat)
                    if third.shape[1] == len(tot) and np.abs(third.sum(axis=0) - tot).max() > 1e-9 * max(tot.max(), 1e-12):
                        bad("pdos_additivity", "ProjectedDos object after a re-run: sum of %s PDOS differs from the total DOS by %.3e" % ("xyz" if xyz else "atom", np.abs(third.sum(axis=0) - tot).max()), tet=tet, xyz=xyz, rerun=True, **feat)
            rng = np.random.default_rng(c["seed"])
            ph.run_projected_dos(direction=rng.standard_normal(3).tolist(), use_tetrahedron_method=tet, sigma=None if tet else sigma, **kw)
            pdd = np.array(ph.get_projected_dos_dict()["projected_dos"])
            if (pdd < -1e-10).any():
                bad("negative_pdos", "direction-projected DOS negative: %.3e" % pdd.min(), tet=tet, **feat)
            if (pdd.sum(axis=0) > tot + 1e-9 * max(tot.max(), 1e-12)).any() and not (c["smear"] == "Cauchy" and not tet):
                bad("pdos_direction_exceeds_total", "direction-projected DOS exceeds the total DOS", tet=tet, **feat)
        # the window given in whole numbers (the cm^-1 habit: freq_min=0, freq_max=600, freq_pitch=2) as Python ints, numpy ints, floats or a mixture:
        # the same grid and the same densities whatever the scalar type (the model is stiffened so that the spectrum spans ~40 frequency units)
        ph.force_constants = np.array(fc) * (40.0 / span) ** 2
        ph.run_mesh(mesh, shift=c["shift"], is_gamma_center=c["gamma"], is_mesh_symmetry=False, with_eigenvectors=True)
        fr2 = np.array(ph.mesh.frequencies)
        lo_, hi_ = int(np.floor(fr2.min())) - 2, int(np.ceil(fr2.max())) + 2
        forms = [("float", (float(lo_), float(hi_), 1.0)), ("int", (lo_, hi_, 1)), ("numpy_int", (np.int64(lo_), np.int64(hi_), np.int64(1))),
                 ("int_min_float_pitch", (lo_, hi_, 1.0)), ("float_min_int_pitch", (float(lo_), hi_, 1)), ("numpy_float32", (np.float32(lo_), np.float32(hi_), np.float32(1)))]
        for tet in (True, False):
            ref_t = None
            for nm, (a_, b_, p_w) in forms:
                kw_t = dict(freq_min=a_, freq_max=b_, freq_pitch=p_w, use_tetrahedron_method=tet, sigma=None if tet else 1.3)
                ph.run_total_dos(**kw_t)
                dd_t = ph.get_total_dos_dict()
                ph.run_projected_dos(**kw_t)
                got_t = (np.array(dd_t["frequency_points"], float), np.array(dd_t["total_dos"], float), np.array(ph.get_projected_dos_dict()["projected_dos"], float))
                obs["n_window_scalar_types"] = obs.get("n_window_scalar_types", 0) + 1
                if ref_t is None:
                    ref_t = got_t
                    # (no normalisation demand here: unit pitch on a coarse mesh is a poor quadrature; the comparison is vacuous if the reference vanishes, so count)
                    obs["n_window_reference_nonzero"] = obs.get("n_window_reference_nonzero", 0) + int(np.trapezoid(got_t[1], got_t[0]) > 0.3 * nb)
                    continue
                for what, x_, y_ in zip(("frequency points", "total DOS", "projected DOS"), got_t, ref_t):
                    if x_.shape != y_.shape or np.abs(x_ - y_).max() > 1e-10 * max(np.abs(y_).max(), 1e-12):
                        bad("window_scalar_type", "%s DOS: %s with the window given as %s (%r, %r, %r) differ from the same window given as floats by %.3e (max %.3e)" % (
                            "tetrahedron" if tet else "smearing", what, nm, a_, b_, p_w, np.abs(x_ - y_).max() if x_.shape == y_.shape else np.inf, np.abs(y_).max()), tet=tet, form=nm, **feat)
                        break
        key = "real|%s|%s|%s|%s|%s" % (c["crystal"]["name"], mesh, c["shift"], c["gamma"], c["smear"])
        return {"viol": viol, "nontrivial": bool(np.prod(mesh) > 1), "key": key, "obs": obs, "evals": 10,
                "sample": {"kind": "real", "crystal": c["crystal"], "mesh": mesh, "shift": c["shift"], "nbands": nb, "smear": c["smear"]}}

    # ---------------- synthetic fields
    from phonopy.structure.tetrahedron_method import TetrahedronMethod

    rng = np.random.default_rng(c["seed"])
    mesh = np.array(c["mesh"])
    rec = lattice_for_diag(c["diag"], rng)
    kdiag, lens = main_diagonal_index(rec / mesh)
    srt = np.sort(lens)
    if srt[1] - srt[0] < 1e-3 * srt[0]:
        return {"skip": "main diagonal not unique"}
    tmC = TetrahedronMethod(rec, mesh=mesh, lang="C")
    tmP = TetrahedronMethod(rec, mesh=mesh, lang="Py")
    pts = np.array(list(itertools.product(*[range(m) for m in mesh])))
    q = pts / mesh
    if c["field"] == "smooth":
        k1, k2 = rng.integers(1, 3, 3), rng.integers(1, 3, 3)
        f = 3 + np.cos(2 * np.pi * q @ k1) + 0.5 * np.sin(2 * np.pi * q @ k2)
    elif c["field"] == "rough":
        f = rng.uniform(0, 5, len(pts))
    elif c["field"] == "ties":
        f = rng.integers(0, 3, len(pts)).astype(float)
    else:
        f = np.full(len(pts), 2.5)
    idx = {tuple(p): i for i, p in enumerate(pts)}

    def vertex_values(tm, gp):
        rel = np.array(tm.tetrahedra)  # (24,4,3)
        adr = (pts[gp] + rel) % mesh
        return np.array([[f[idx[tuple(a)]] for a in t] for t in adr])

    lo, hi = f.min(), f.max()
    span = max(hi - lo, 1.0)
    omegas = np.sort(np.concatenate([rng.uniform(lo - 0.2 * span, hi + 0.2 * span, 9), [lo - 0.1 * span, hi + 0.1 * span]]))
    omegas = omegas + 1e-7 * rng.uniform(0.1, 1, len(omegas))  # generic: never exactly a vertex value
    table = np.zeros((4, 5), int)
    totJ_top = 0.0
    for gp in range(len(pts)):
        vC, vP = vertex_values(tmC, gp), vertex_values(tmP, gp)
        # the two implementations must describe the same 24 tetrahedra around the point (as sets of vertex-value multisets is too weak: compare address sets)
        sC = sorted(tuple(sorted(map(tuple, t))) for t in np.array(tmC.tetrahedra))
        sP = sorted(tuple(sorted(map(tuple, t))) for t in np.array(tmP.tetrahedra))
        if gp == 0:
            obs["n_tetrahedra_sets"] = 1
            if sC != sP:
                bad("tetrahedra_differ", "C and Python relative grid addresses describe different tetrahedra", diag=kdiag)
            # central vertex (0,0,0) present in all 24
            if not all(any((np.array(v) == 0).all() for v in t) for t in np.array(tmC.tetrahedra)):
                bad("tetrahedra_centre", "a tetrahedron does not contain the central grid point", diag=kdiag)
        for val in ("I", "J"):
            tmC.set_tetrahedra_omegas(vC)
            tmC.run(omegas, value=val)
            wC = np.array(tmC.get_integration_weight())
            tmP.set_tetrahedra_omegas(vP)
            tmP.run(omegas, value=val)
            wP = np.array(tmP.get_integration_weight())
            obs["n_c_vs_py"] = obs.get("n_c_vs_py", 0) + 1
            sc_ = max(np.abs(wP).max(), 1.0 if val == "J" else 1e-3)
            if np.abs(wC - wP).max() > 1e-11 * sc_:
                bad("thm_c_vs_py", "TetrahedronMethod %s: C and Py differ by %.3e at grid point %d (field %s)" % (val, np.abs(wC - wP).max(), gp, c["field"]), value=val, field=c["field"], diag=kdiag)
            if val == "J":
                if (wC < -1e-12).any() or (wC > 1 + 1e-12).any():
                    bad("J_range", "J outside [0,1]: %.3e .. %.12g" % (wC.min(), wC.max()), field=c["field"])
                if (np.diff(wC) < -1e-12).any():
                    bad("J_monotone", "J decreases with frequency", field=c["field"])
                totJ_top += wC[-1]
            else:
                if (wC < -1e-12).any():
                    bad("I_negative", "I negative: %.3e" % wC.min(), field=c["field"])
        # dJ/dw = I away from vertex values (two step sizes)
        if c["field"] in ("smooth", "rough"):
            allv = np.unique(vC)
            for w0 in omegas[2:-2:3]:
                gap = np.abs(allv - w0).min()
                if gap < 1e-3 * span:
                    continue
                errs = []
                for h in (gap / 4, gap / 8):
                    tmC.set_tetrahedra_omegas(vC)
                    tmC.run(np.array([w0 - h, w0, w0 + h]), value="J")
                    J3 = np.array(tmC.get_integration_weight())
                    tmC.run(np.array([w0]), value="I")
                    I0 = float(np.array(tmC.get_integration_weight())[0])
                    errs.append(abs((J3[2] - J3[0]) / (2 * h) - I0))
                obs["n_derivative"] = obs.get("n_derivative", 0) + 1
                if errs[1] > 1e-6 * max(I0, 1.0 / span) and not errs[1] < 0.35 * errs[0]:
                    bad("dJ_dw", "(J(w+h)-J(w-h))/2h differs from I(w) by %.3e (then %.3e with h/2), I=%.3e" % (errs[0], errs[1], I0), field=c["field"])
        # 4x5 table for this grid point (harness' own classification)
        for t in vC:
            relC = None
        rel = np.array(tmC.tetrahedra)
        for ti in range(24):
            vals = vC[ti]
            ci = int(np.where((rel[ti] == 0).all(axis=1))[0][0])
            order = np.argsort(vals, kind="stable")
            pos = int(np.where(order == ci)[0][0])
            sv = vals[order]
            for w0 in omegas:
                table[pos, int(np.searchsorted(sv, w0))] += 1
    # scalar entry point and the table of all four main-diagonal datasets
    from phonopy.structure.tetrahedron_method import _get_relative_grid_addresses_from_main_diagonal, get_all_tetrahedra_relative_grid_address

    vC0 = vertex_values(tmC, 0)
    tmC.set_tetrahedra_omegas(vC0)
    tmC.run(omegas, value="J")
    arrJ = np.array(tmC.get_integration_weight())
    for k_, w0 in enumerate(omegas[:4]):
        tmC.run(float(w0), value="J")
        sJ = tmC.get_integration_weight()
        obs["n_scalar_entry"] = obs.get("n_scalar_entry", 0) + 1
        if abs(float(sJ) - arrJ[k_]) > 1e-14:
            bad("thm_scalar_vs_vector", "scalar and vector entry points of the tetrahedron weight differ: %r vs %r" % (float(sJ), arrJ[k_]))
    allrel = np.array(get_all_tetrahedra_relative_grid_address())
    obs["n_all_relative"] = 1
    for k_ in range(4):
        relP, _ci = _get_relative_grid_addresses_from_main_diagonal(k_)
        a_ = sorted(tuple(sorted(map(tuple, t))) for t in allrel[k_])
        b_ = sorted(tuple(sorted(map(tuple, t))) for t in np.array(relP))
        if a_ != b_:
            bad("tetrahedra_differ", "all_tetrahedra_relative_grid_address[%d] differs from the Python dataset" % k_, diag=k_)
    tm0 = TetrahedronMethod(None, lang="C")
    if sorted(tuple(sorted(map(tuple, t))) for t in np.array(tm0.tetrahedra)) != sorted(tuple(sorted(map(tuple, t))) for t in allrel[0]):
        bad("tetrahedra_differ", "TetrahedronMethod(None) does not use the first main diagonal dataset")
    obs["n_top_norm"] = 1
    if abs(totJ_top - len(pts)) > 1e-9 * len(pts):
        bad("J_normalisation", "sum over grid points of J(above top) = %.12g, expected %d" % (totJ_top, len(pts)), field=c["field"])
    obs["diag_%d" % kdiag] = 1
    obs["table"] = {"%d_%d" % (i, j): int(table[i, j]) for i in range(4) for j in range(5)}
    obs["field_" + c["field"]] = 1
    key = "field|%s|%s|%s|%s" % (c["diag"], c["mesh"], c["field"], c["seed"])
    return {"viol": viol, "nontrivial": bool(len(pts) > 1 and c["field"] != "constant"), "key": key, "obs": obs, "evals": len(pts) * 2,
            "sample": {"kind": "field", "mesh": c["mesh"], "field": c["field"], "main_diagonal": kdiag, "diagonal_lengths": np.round(lens, 4).tolist()}}


def summarize(results, obs, tier):
    inc = []
    for k in ("diag_0", "diag_1", "diag_2", "diag_3", "n_c_vs_py", "n_derivative", "n_J_norm", "n_additivity", "n_smearing_norm", "n_dos_c_vs_py"):
        if obs.get(k, 0) == 0:
            inc.append("%s never exercised" % k)
    tb = obs.get("table", {})
    empty = [k for k in ("%d_%d" % (i, j) for i in range(4) for j in range(5)) if tb.get(k, 0) == 0]
    if empty:
        inc.append("(central-vertex position x interval) cells never reached: %s" % empty)
    return {"central_vertex_x_interval_table": tb}, inc
