"""C05 - shortest-vector tables are the complete set of minimum-image vectors.

Post-condition monitor on ShortestPairs / Primitive.get_smallest_vectors with a brute-force oracle: all lattice images
inside a box that provably contains every image not longer than one known image are enumerated.
"""

from __future__ import annotations

import itertools

import numpy as np

PROP = "C05"
LEVEL = "exploration"
VARIANTS = ("omp",)
CASE_TIMEOUT = 1200
SYMPREC = 1e-5
RULE = ("cases = lattice family (random sheared by unimodular matrices, needles/plates to 1:50, cubic/fcc/bcc/hex with atoms on 0,1/2,1/3,1/4 fractions for 2..8-fold ties, "
        "zoo supercells through Primitive) x dense|sparse storage; every (supercell atom, primitive atom) pair is an evaluation; "
        "tie families also with positions perturbed by 0.03|0.2 symprec (near-ties) and symprec 1e-7|1e-5|1e-3; oracle bands: images with length <= min+0.5*symprec must be stored, >= min+1.5*symprec must not (in between: don't care); "
        "non-trivial = pair with a non-zero separation; distinct = (lattice case, storage, pair index); "
        "additions of rounds 6-8: family large (1024-2051 atoms, 1-16 threads); module-level function for the problem and for a sibling lattice (equal lengths and positions, other angles) in the same process")
ASSUMPTIONS = [
    "box |n_i| <= r0*|b*_i| + 0.5 in the Niggli-reduced basis (harness' own spglib call) contains every image no longer than the known image r0",
    "boxes with more than 3e6 points are skipped and counted",
]
MIN_NONTRIVIAL = {"quick": 3000, "thorough": 30000}


def gen_cases(tier, seed):
    rng = np.random.default_rng([seed, 5])
    cases = []
    n = 320 if tier == "quick" else 3200
    fams = ["random", "needle", "plate", "cubic_ties", "fcc_ties", "bcc_ties", "hex_ties", "zoo"]
    for i in range(n):
        fam = fams[i % len(fams)]
        # near: tie families with positions perturbed by <= 0.2 symprec (file round-off, relaxation noise): the tied images then agree within
        # 0.4 symprec (< the 0.5 symprec "must be stored" band) but not to machine precision; symprec itself is varied
        cases.append({"family": fam, "seed": int(rng.integers(10 ** 9)), "dense": bool(i // len(fams) % 2), "_cost": 3 if fam == "zoo" else 1,
                      "near": float([0.0, 0.0, 0.03, 0.2][rng.integers(4)]) if fam.endswith("_ties") else 0.0, "symprec": float([1e-5, 1e-5, 1e-3, 1e-7][rng.integers(4)])})
    # supercells of more than a thousand atoms (ordinary production sizes; a hand-made work split across threads only shows there), any thread count
    for i in range(8 if tier == "quick" else 64):
        cases.append({"family": "large", "seed": int(rng.integers(10 ** 9)), "dense": bool(i % 4 != 3), "_cost": 40, "near": 0.0, "symprec": 1e-5,
                      "_threads": [2, 3, 5, 7, 16, 1][i % 6]})
    return cases


def _unimodular(rng, nsh):
    M = np.eye(3, dtype=int)
    for _ in range(nsh):
        i, j = rng.choice(3, 2, replace=False)
        E = np.eye(3, dtype=int)
        E[i, j] = rng.integers(-2, 3)
        M = M @ E
    return M


def _rot(rng):
    Q, _ = np.linalg.qr(rng.standard_normal((3, 3)))
    if np.linalg.det(Q) < 0:
        Q[:, 0] *= -1
    return Q


def make_problem(c):
    rng = np.random.default_rng(c["seed"])
    fam = c["family"]
    fr = [0, 0.5, 1 / 3, 2 / 3, 0.25, 0.75]
    if fam in ("random", "needle", "plate", "large"):
        if fam in ("random", "large"):
            L = rng.standard_normal((3, 3)) + 2.0 * np.eye(3)
            L *= rng.uniform(2, 6)
        elif fam == "needle":
            L = np.diag([1.0, rng.uniform(0.8, 1.3), rng.uniform(5, 50)]) * 3.0
            L = L + 0.2 * rng.standard_normal((3, 3))
        else:
            L = np.diag([rng.uniform(5, 50), rng.uniform(5, 40), 1.0]) * 2.5
            L = L + 0.2 * rng.standard_normal((3, 3))
        if np.linalg.det(L) < 0:
            L[0] *= -1
        ns, npr = int(rng.integers(4, 12)), int(rng.integers(1, 4))
        if fam == "large":
            ns = int([1024, 1025, 1029, 1101, 1536, 2049][int(rng.integers(6))] + rng.integers(0, 3))
            L = L * 4.0
        xs = rng.uniform(-1, 2, (ns, 3))
        xp = xs[:npr].copy()
    else:
        if fam == "cubic_ties":
            L = np.eye(3) * 4.0
        elif fam == "fcc_ties":
            L = np.array([[0, 0.5, 0.5], [0.5, 0, 0.5], [0.5, 0.5, 0]]) * 6.0
        elif fam == "bcc_ties":
            L = np.array([[-0.5, 0.5, 0.5], [0.5, -0.5, 0.5], [0.5, 0.5, -0.5]]) * 5.0
        elif fam == "hex_ties":
            L = np.array([[1, 0, 0], [-0.5, np.sqrt(3) / 2, 0], [0, 0, rng.choice([1.0, 1.633, 0.7])]]) * 3.5
        else:
            L = None
        if L is not None:
            ns, npr = int(rng.integers(5, 14)), int(rng.integers(1, 4))
            xs = rng.choice(fr, size=(ns, 3)) + rng.integers(-1, 2, (ns, 3))
            xs = np.unique(np.round(xs, 12), axis=0)
            rng.shuffle(xs)
            xs = np.vstack([xs, xs[0] + np.array([0.5, 0.5, 0.5]) + rng.integers(-1, 2, 3)])  # body-centre partner: the 8-fold tie on a cubic cell
            xs = np.unique(np.round(xs, 12), axis=0)
            rng.shuffle(xs)
            xp = xs[:npr].copy()
            if rng.integers(3) == 0:
                mult = rng.integers(1, 4, 3)  # rectangular multiples keep many ties
                L = L * mult[:, None]
    if fam == "zoo":
        return None
    # describe the same lattice in a far-from-reduced basis and rotate rigidly
    if c.get("near", 0.0) > 0 and fam.endswith("_ties"):
        dcart = rng.standard_normal(xs.shape)
        dcart *= (c["near"] * c.get("symprec", SYMPREC) * rng.uniform(0.2, 1.0, (len(xs), 1))) / np.linalg.norm(dcart, axis=1)[:, None]
        xs = xs + dcart @ np.linalg.inv(L)
        xp = xs[:npr].copy()
    U = _unimodular(rng, int(rng.integers(0, 6)))
    L2 = (U @ L) @ _rot(rng).T
    xs2 = xs @ np.linalg.inv(U)
    xp2 = xp @ np.linalg.inv(U)
    return np.array(L2, dtype="double", order="C"), np.array(xs2, dtype="double", order="C"), np.array(xp2, dtype="double", order="C")


def brute_force(L, xs, xp, symprec, max_points=3_000_000):
    """For every pair return (must_set, allowed_set) of Cartesian vectors (from primitive atom to supercell atom)."""
    import spglib

    red = spglib.niggli_reduce(np.array(L, float), eps=symprec)
    T = np.rint(red @ np.linalg.inv(L))  # red = T L
    assert np.abs(T @ L - red).max() < 1e-8 * np.abs(L).max() and abs(abs(np.linalg.det(T)) - 1) < 1e-8
    Ti = np.linalg.inv(T)
    bstar = np.linalg.norm(np.linalg.inv(red), axis=0)  # |b*_i| = norm of column i of inv(red)
    out = {}
    skipped = 0
    for ip, p in enumerate(xp):
        d = (xs - p) @ Ti  # fractional w.r.t. reduced basis
        d0 = d - np.rint(d)
        r0 = np.linalg.norm(d0 @ red, axis=1)
        for isx in range(len(xs)):
            nmax = np.floor(r0[isx] * bstar + 0.5 + 1e-9).astype(int) + 1
            if np.prod(2 * nmax + 1) > max_points:
                skipped += 1
                continue
            grids = np.array(list(itertools.product(*[range(-m, m + 1) for m in nmax])), dtype=float)
            v = (d0[isx] + grids) @ red
            ln = np.linalg.norm(v, axis=1)
            m = ln.min()
            must = v[ln <= m + 0.5 * symprec]
            allowed = v[ln < m + 1.5 * symprec]
            out[(isx, ip)] = (must, allowed, m)
    return out, skipped


def compare(stored, must, allowed, tol=1e-7):
    """stored: (k,3) Cartesian. Returns problem string or None."""
    k = len(stored)
    if k == 0:
        return "no vector stored"
    for a in range(k):
        for b in range(a + 1, k):
            if np.linalg.norm(stored[a] - stored[b]) < tol:
                return "duplicate stored vector"
    for s in stored:
        if np.linalg.norm(allowed - s, axis=1).min() > tol:
            return "stored vector %s is not a minimum image (or not an image at all)" % np.round(s, 6).tolist()
    for mv in must:
        if np.linalg.norm(stored - mv, axis=1).min() > tol:
            return "minimum image %s (a tie) is missing" % np.round(mv, 6).tolist()
    return None


def run_case(c):
    from phonopy.structure.cells import ShortestPairs, dense_to_sparse_svecs, sparse_to_dense_svecs

    viol = []
    obs = {"mult_hist": {}}
    keys = []
    prob = make_problem(c)
    via_primitive = None
    if prob is None:
        from vlib.gen import crystals, setup

        rng = np.random.default_rng(c["seed"])
        name = crystals.SMALL[rng.integers(len(crystals.SMALL))]
        smats = setup.smat_list(max(1, 40 // crystals.natoms(name)), rng=rng, n_random=2)
        case = {"crystal": {"name": name, "order": "random", "order_seed": int(rng.integers(100)), "int_shift": True, "rot_seed": int(rng.integers(100))},
                "smat": smats[rng.integers(len(smats))], "store_dense_svecs": c["dense"]}
        # the tolerance the cells are built with must be the tolerance of their shortest-vector tables: non-default symprec, and (for the loose one)
        # positions with noise well below it, so that tied images agree within symprec but not to 1e-5
        zsym = float([1e-5, 1e-5, 1e-3, 1e-7][int(rng.integers(4))])
        noise = 0.15 * zsym if zsym > 1e-5 and rng.integers(2) else 0.0
        if zsym != 1e-5 or noise:
            from phonopy import Phonopy

            cd = crystals.make(**case["crystal"])
            at = crystals.to_atoms(cd)
            if noise:
                dc = rng.standard_normal((len(at), 3))
                dc *= noise * rng.uniform(0.3, 1.0, (len(at), 1)) / np.linalg.norm(dc, axis=1)[:, None]
                at.scaled_positions = np.array(at.scaled_positions) + dc @ np.linalg.inv(np.array(at.cell))
            pm_ = cd["pmat"] if (cd["pmat"] != "P" and rng.integers(2)) else None
            try:
                ph = Phonopy(at, supercell_matrix=case["smat"], primitive_matrix=pm_, symprec=zsym, store_dense_svecs=c["dense"], log_level=0)
            except Exception as e:
                return {"skip": "phonopy could not build the noisy cell at symprec %g: %s" % (zsym, type(e).__name__)}
            pm = "P"
        else:
            ph, cd = setup.build_phonopy(case)
            pm = cd["pmat"]
        if pm != "P" and rng.integers(2):
            ph, cd = setup.build_phonopy(dict(case, pmat=pm))
        sc, pr = ph.supercell, ph.primitive
        L = np.array(sc.cell, dtype="double", order="C")
        xs = np.array(sc.scaled_positions, dtype="double", order="C")
        xp = np.array(xs[pr.p2s_map], dtype="double", order="C")
        via_primitive = pr
    else:
        L, xs, xp = prob
    symprec = c.get("symprec", SYMPREC) if via_primitive is None else zsym
    if via_primitive is not None:
        obs["zoo_symprec_%g" % zsym] = 1
        obs["zoo_noisy"] = int(noise > 0)
    sp = ShortestPairs(L, xs, xp, store_dense_svecs=c["dense"], symprec=symprec)
    svecs, multi = sp.shortest_vectors, sp.multiplicities
    sp2 = ShortestPairs(L, xs, xp, store_dense_svecs=not c["dense"], symprec=symprec)
    oracle, skipped = brute_force(L, xs, xp, symprec)
    obs["near_tie_cases"] = int(c.get("near", 0.0) > 0)
    obs["symprec_%g" % symprec] = 1
    obs["skipped_big_box"] = skipped

    def stored_of(svecs, multi, dense, i, j):
        if dense:
            m, adr = multi[i, j]
            return np.array(svecs[adr:adr + m]), int(m)
        m = int(multi[i, j])
        return np.array(svecs[i, j, :m]), m

    n_eval = 0
    for (i, j), (must, allowed, mlen) in oracle.items():
        n_eval += 1
        for which, (sv, mu, dense) in (("primary", (svecs, multi, c["dense"])), ("other", (sp2.shortest_vectors, sp2.multiplicities, not c["dense"]))):
            st, m = stored_of(sv, mu, dense, i, j)
            obs["mult_hist"][str(m)] = obs["mult_hist"].get(str(m), 0) + (1 if which == "primary" else 0)
            if m > 27 or m < 1:
                viol.append({"kind": "multiplicity_range", "msg": "multiplicity %d outside 1..27" % m, "dense": dense, "family": c["family"]})
                continue
            prob_ = compare(st @ L, must, allowed)
            if prob_:
                if len(viol) < 6:
                    viol.append({"kind": "svecs_wrong", "msg": "pair (%d,%d): %s; stored %d, ties %d, min length %.6f" % (i, j, prob_, m, len(must), mlen),
                                 "dense": dense, "family": c["family"], "n_ties": int(len(must)), "n_stored": m, "near": c.get("near", 0.0), "symprec": symprec})
        if mlen > 1e-8:
            keys.append("%s|%s|%d|%d" % (c["seed"], c["dense"], i, j))
    # conversion helpers describe the same sets
    if c["dense"]:
        ssv, smu = dense_to_sparse_svecs(svecs, multi)
        other_sv, other_mu = sp2.shortest_vectors, sp2.multiplicities
        for i in range(len(xs)):
            for j in range(len(xp)):
                a = ssv[i, j, :smu[i, j]]
                b = other_sv[i, j, :other_mu[i, j]]
                if smu[i, j] != other_mu[i, j] or (len(a) and np.abs(np.sort(a, axis=0) - np.sort(b, axis=0)).max() > 1e-8 and
                                                    sorted(map(tuple, np.round(a, 7))) != sorted(map(tuple, np.round(b, 7)))):
                    viol.append({"kind": "dense_sparse_differ", "msg": "dense_to_sparse_svecs(dense) != sparse result for pair (%d,%d)" % (i, j)})
                    break
    if via_primitive is None and len(xs) <= 40:
        # the module-level function (what Primitive and the cutoff of force constants call) for this problem and then, in the same process, for a
        # SIBLING: the same fractional positions and the same lengths a, b, c with other angles (an angle scan at fixed lengths) - each against its
        # own brute force; anything remembered from the first call must not leak into the second
        from phonopy.structure.cells import get_smallest_vectors as gsv

        srng = np.random.default_rng(c["seed"] + 9)
        lens = np.linalg.norm(L, axis=1)
        for _ in range(20):
            Q1 = _rot(srng)
            Ls = L.copy()
            k_ = int(srng.integers(3))
            Ls[k_] = (0.85 * L[k_] / lens[k_] + 0.15 * Q1[0]) * 1.0
            Ls[k_] *= lens[k_] / np.linalg.norm(Ls[k_])  # same length, another direction
            if abs(np.linalg.det(Ls)) > 0.3 * abs(np.linalg.det(L)):
                break
        if np.linalg.det(Ls) * np.linalg.det(L) < 0:
            Ls = None
        for tag, Lx in (("first", L), ("sibling", Ls)):
            if Lx is None:
                continue
            Lx = np.array(Lx, dtype="double", order="C")
            sv_, mu_ = gsv(Lx, xs, xp, store_dense_svecs=c["dense"], symprec=symprec)
            orc_, _ = brute_force(Lx, xs, xp, symprec) if tag == "sibling" else (oracle, 0)
            obs["module_function_" + tag] = obs.get("module_function_" + tag, 0) + 1
            for (i, j), (must, allowed, mlen) in orc_.items():
                st, m = stored_of(sv_, mu_, c["dense"], i, j)
                prob_ = compare(st @ Lx, must, allowed) if 1 <= m <= 27 else "multiplicity %d" % m
                if prob_:
                    viol.append({"kind": "svecs_wrong", "msg": "get_smallest_vectors (%s lattice of two with equal lengths and positions, other angles, same process) pair (%d,%d): %s" % (tag, i, j, prob_),
                                 "dense": c["dense"], "family": c["family"], "sequence": tag, "near": c.get("near", 0.0), "symprec": symprec})
                    break
    if via_primitive is not None:
        psv, pmu = via_primitive.get_smallest_vectors()
        Lp = np.array(via_primitive.cell)
        obs["via_primitive"] = 1
        for (i, j), (must, allowed, mlen) in oracle.items():
            st, m = stored_of(psv, pmu, via_primitive.store_dense_svecs, i, j)
            prob_ = compare(st @ Lp, must, allowed)
            if prob_ and len(viol) < 6:
                viol.append({"kind": "primitive_svecs_wrong", "msg": "Primitive.get_smallest_vectors pair (%d,%d): %s" % (i, j, prob_)})
    ar = np.linalg.norm(L, axis=1)
    obs["max_aspect"] = [round(float(ar.max() / ar.min()), 1)]
    obs["family_" + c["family"]] = 1
    return {"viol": viol[:6], "nontrivial": bool(keys), "keys": keys, "evals": n_eval * 2, "obs": obs,
            "sample": {"family": c["family"], "dense": c["dense"], "lattice": np.round(L, 4).tolist(), "n_super": len(xs), "n_prim": len(xp),
                       "multiplicities_seen": sorted(int(k) for k in obs["mult_hist"])}}


def summarize(results, obs, tier):
    inc = []
    mh = obs.get("mult_hist", {})
    if not any(int(k) >= 8 for k in mh):
        inc.append("no pair with 8-fold tie was produced")
    if not any(int(k) in (2, 3, 4, 6) for k in mh):
        inc.append("no 2/3/4/6-fold tie was produced")
    return {"multiplicity_histogram": mh}, inc
