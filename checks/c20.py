"""C20 - equations of state and quasi-harmonic analysis recover known parameters.

Reference-model monitor: the generator owns the EOS parameters (E0, B0, B0', V0) as smooth functions of T; free energies
that are exactly that EOS in V at every T are handed to PhonopyQHA, which must return them; the defining meaning of each
parameter is checked by Richardson-extrapolated central differences of the EOS functions themselves.
"""

from __future__ import annotations

import numpy as np

PROP = "C20"
LEVEL = "exploration"
VARIANTS = ("omp",)
CASE_TIMEOUT = 1200
RULE = ("kind eos: 3 EOS x random parameter sets (B0 5..400 GPa, B0' 2..8, V0 10..500 A^3): E(V0)=E0, E'(V0)=0, V0 E''(V0)=B0, -(V/B) dB/dV=B0'; "
        "kind qha: 3 EOS x parameter sets x volume grids (5..15 points, +-3..10 %) x pressures {0, +-5, 30 GPa} x electronic energies of shape (V) or (T,V) x t_max choices x temperature grids (equal steps | ascending unequal steps): "
        "V0(T), Gibbs energy, B0(T), thermal expansion and numerical C_P vs the documented finite differences of the known functions; BulkModulus class; "
        "non-trivial = parameters move with temperature (qha) / all four identities evaluated (eos); distinct = parameter tuple; "
        "additions of rounds 6-8: data generated with the harness' own textbook EOS, get_eos compared with them; volume points descending / shuffled; constant energy offsets (precision loss = known finding inside a measured envelope); every temperature must get its own fit; thermal-expansion tolerance from the temperature step")
ASSUMPTIONS = ["scipy (leastsq) comes from the offline wheelhouse into /verif/.deps", "fit tolerance 1e-7 relative (exact-EOS data, so the least-squares minimum is the generating parameter set)"]
MIN_NONTRIVIAL = {"quick": 60, "thorough": 500}
EOSS = ["vinet", "birch_murnaghan", "murnaghan"]


def gen_cases(tier, seed):
    rng = np.random.default_rng([seed, 20])
    cases = []
    for i in range(60 if tier == "quick" else 600):
        cases.append({"kind": "eos", "eos": EOSS[i % 3], "E0": float(rng.uniform(-50, 5)), "B0_GPa": float(10 ** rng.uniform(np.log10(5), np.log10(400))), "Bp": float(rng.uniform(2, 8)),
                      "V0": float(10 ** rng.uniform(1, np.log10(500)))})
    for i in range(60 if tier == "quick" else 500):
        cases.append({"kind": "qha", "eos": EOSS[i % 3], "E0": float(rng.uniform(-50, 5)), "B0_GPa": float(10 ** rng.uniform(np.log10(20), np.log10(300))), "Bp": float(rng.uniform(3, 6)),
                      "V0": float(10 ** rng.uniform(1, np.log10(300))), "nvol": int(rng.integers(5, 16)), "spread": float(rng.uniform(0.03, 0.10)),
                      "pressure": [None, 0.0, 5.0, -5.0, 30.0][rng.integers(5)], "el2d": bool(rng.integers(2)), "tmax_mode": ["none", "mid"][rng.integers(2)], "tgrid": ["uniform", "nonuniform"][rng.integers(2)], "vgrid": ["cover", "cover", "short", "high"][rng.integers(4)],
                      "vorder": ["ascending", "descending", "shuffled"][int(rng.integers(3))], "eshift": [0.0, 0.0, -1.0e3, -7.4e4, 2.3e4][int(rng.integers(5))], "alpha": float(rng.uniform(1e-5, 8e-5)), "a2": float(rng.uniform(1e-7, 2e-6)), "cB": float(rng.uniform(1e-5, 2e-4)), "seed": int(rng.integers(10 ** 6)), "_cost": 3})
    return cases


def own_eos(name):
    """The three equations of state written out here from their textbook forms (E0, B0, B0', V0) - the data handed to phonopy are generated
    with THESE, never with phonopy's own functions (a dispatch that returns another form would otherwise generate and fit the same wrong curve)."""
    def vinet(v, e0, b0, bp, v0):
        x = (np.asarray(v, float) / v0) ** (1.0 / 3)
        eta = 1.5 * (bp - 1.0)
        return e0 + 9.0 * b0 * v0 / eta ** 2 * (1.0 - (1.0 - eta * (1.0 - x)) * np.exp(eta * (1.0 - x)))

    def birch_murnaghan(v, e0, b0, bp, v0):
        f_ = (v0 / np.asarray(v, float)) ** (2.0 / 3) - 1.0
        return e0 + 9.0 * v0 * b0 / 16.0 * (f_ ** 3 * bp + f_ ** 2 * (6.0 - 4.0 * (f_ + 1.0)))

    def murnaghan(v, e0, b0, bp, v0):
        v = np.asarray(v, float)
        return e0 + b0 * v / bp * ((v0 / v) ** bp / (bp - 1.0) + 1.0) - b0 * v0 / (bp - 1.0)

    return {"vinet": vinet, "birch_murnaghan": birch_murnaghan, "murnaghan": murnaghan}[name]


def richardson(f, x, h, order):
    """Central-difference derivative of given order (1,2,3) with Richardson extrapolation over h and h/2."""

    def d(hh):
        if order == 1:
            return (f(x - 2 * hh) - 8 * f(x - hh) + 8 * f(x + hh) - f(x + 2 * hh)) / (12 * hh)
        if order == 2:
            return (-f(x - 2 * hh) + 16 * f(x - hh) - 30 * f(x) + 16 * f(x + hh) - f(x + 2 * hh)) / (12 * hh ** 2)
        return (-f(x - 2 * hh) + 2 * f(x - hh) - 2 * f(x + hh) + f(x + 2 * hh)) / (2 * hh ** 3)

    p = 4 if order in (1, 2) else 2
    return (2 ** p * d(h / 2) - d(h)) / (2 ** p - 1)


def run_case(c):
    from phonopy.qha.eos import get_eos
    from phonopy.units import EVAngstromToGPa, EvTokJmol

    viol, obs = [], {}

    def bad(kind, msg, **kw):
        if len(viol) < 8:
            viol.append(dict(kind=kind, msg=msg, eos=c["eos"], **kw))

    eos_phonopy = get_eos(c["eos"])  # (the name arrives as a fresh string object, decoded from the case file - not an interned literal)
    eos = own_eos(c["eos"])
    E0, B0, Bp, V0 = c["E0"], c["B0_GPa"] / EVAngstromToGPa, c["Bp"], c["V0"]
    if c["kind"] == "eos":
        f = lambda v: eos_phonopy(v, E0, B0, Bp, V0)  # noqa: E731
        # the function phonopy hands out under this name IS this equation of state (textbook form written out in the harness), over a wide range
        vv = V0 * np.linspace(0.75, 1.3, 23)
        dform = np.abs(eos_phonopy(vv, E0, B0, Bp, V0) - eos(vv, E0, B0, Bp, V0)).max()
        obs["n_eos_form"] = 1
        if dform > 1e-10 * max(abs(E0), B0 * V0):
            bad("eos_form", "get_eos(%r) differs from the %s equation of state by %.3e eV over V/V0 in [0.75, 1.3] (E0 %.4g, B0 V0 %.4g)" % (c["eos"], c["eos"], dform, E0, B0 * V0))
        h = 2e-2 * V0
        e0 = f(V0)
        d1 = richardson(f, V0, h, 1)
        d2 = richardson(f, V0, h, 2)
        Bfun = lambda v: v * richardson(f, v, h, 2)  # noqa: E731
        dB = (Bfun(V0 * 1.001) - Bfun(V0 * 0.999)) / (0.002 * V0)
        bp = -V0 / (V0 * d2) * dB
        sc = B0 * V0
        obs["n_eos"] = 1
        if abs(e0 - E0) > 1e-10 * max(abs(E0), sc):
            bad("eos_E0", "E(V0) = %.12g != E0 = %.12g" % (e0, E0))
        if abs(d1) > 1e-6 * B0:
            bad("eos_pressure", "dE/dV at V0 = %.3e (B0 = %.3e): V0 is not the zero-pressure volume" % (d1, B0))
        if abs(V0 * d2 - B0) > 1e-5 * B0:
            bad("eos_B0", "V0 E''(V0) = %.10g != B0 = %.10g" % (V0 * d2, B0))
        if abs(bp - Bp) > 2e-3 * Bp:
            bad("eos_Bprime", "-(V/B) dB/dV at V0 = %.8g != B0' = %.8g" % (bp, Bp))
        return {"viol": viol, "nontrivial": True, "key": "eos|%s|%.6g|%.6g|%.6g|%.6g" % (c["eos"], E0, c["B0_GPa"], Bp, V0), "obs": obs, "evals": 4,
                "sample": {"kind": "eos", "eos": c["eos"], "E0": E0, "B0_GPa": c["B0_GPa"], "Bp": Bp, "V0": V0, "B0_from_derivative_GPa": float(V0 * d2 * EVAngstromToGPa), "Bp_from_derivative": float(bp)}}

    from phonopy import PhonopyQHA

    rng = np.random.default_rng(c["seed"])
    if c.get("tgrid", "uniform") == "uniform":
        T = np.arange(0, 1010, 50.0)
    else:  # ascending, unequal steps (denser at low T): the documented differences use the local steps
        T = np.concatenate([[0.0], np.cumsum(rng.uniform(8, 40, 8)), ])
        T = np.concatenate([T, T[-1] + np.cumsum(rng.uniform(40, 90, 12))])
        T = T * (1000.0 / T[-1])  # the generating model (B0(T) = B0 (1 - cB T), volume grid) is laid out for 0..1000 K
    V0T = V0 * (1 + c["alpha"] * T + 1e-9 * T ** 2)
    E0T = E0 - c["a2"] * T ** 2
    B0T = B0 * (1 - c["cB"] * T)
    vols = np.linspace(V0 * (1 - c["spread"]), V0T.max() * (1 + c["spread"]), c["nvol"])
    if c.get("vgrid") == "short":
        # the sampled volumes end inside the range V0(T) sweeps (strong expansion, narrow grid): the minimum is then an extrapolation of the fitted
        # EOS for the upper temperatures - legitimate, and exact here because the data ARE an EOS in V
        # (only just: an EOS fit far from its minimum is ill-conditioned, the recovered parameters then carry the fit's tolerance amplified)
        vols = np.linspace(V0 * (1 - c["spread"]), V0T.max() - 0.08 * (V0T.max() - V0T.min()), c["nvol"])
    elif c.get("vgrid") == "high":
        vols = np.linspace(V0T.min() + 0.08 * (V0T.max() - V0T.min()), V0T.max() * (1 + c["spread"]), c["nvol"])
    # the volume points in the order the caller happens to hold them (compressed first, a scan outwards from the equilibrium cell ...): only the
    # temperatures are documented as ascending; every per-volume input below follows the same order
    vorder = c.get("vorder", "ascending")
    if vorder == "descending":
        vols = vols[::-1].copy()
    elif vorder == "shuffled":
        # (phonopy used to start the fit from the MIDDLE element of the lists: with an extreme volume there scipy's leastsq returned a spurious
        # solution without complaint - sweep after round 6, seed 1; a genuine order dependence, repaired in /repo, see DESIGN 9.2)
        vols = vols[np.random.default_rng(c["seed"] + 1).permutation(len(vols))]
    obs["vorder_" + vorder] = 1
    F = np.array([[eos(v, E0T[i], B0T[i], Bp, V0T[i]) for v in vols] for i in range(len(T))])  # eV, exactly an EOS in V at every T
    # the zero of energy is arbitrary (all-electron totals, large cells: 1e4..1e5 eV): the same constant added to every energy must come back in
    # the Gibbs energy and nowhere else
    eshift = float(c.get("eshift", 0.0))
    F = F + eshift
    E0T = E0T + eshift
    obs["eshift_%g" % eshift] = 1
    P = c["pressure"]
    Fin = F.copy()
    if P is not None:
        Fin = Fin - vols[None, :] * P / EVAngstromToGPa  # then +PV must give the unshifted parameters back
    if c["el2d"]:
        s = 0.3 + 0.4 * np.sin(T / 300.0) ** 2
        el = Fin * s[:, None]
        ph = (Fin - el) * EvTokJmol
    else:
        el = Fin[0].copy()
        ph = (Fin - el[None, :]) * EvTokJmol
    cv = 20.0 * (1 - np.exp(-T[:, None] / 300.0)) * np.ones_like(F)
    ent = 30.0 * (T[:, None] / 500.0) * np.ones_like(F)
    t_max = None if c["tmax_mode"] == "none" else float(T[len(T) // 2])
    big_offset = bool(abs(eshift) >= 1e3)
    feat = dict(pressure=P, el2d=c["el2d"], nvol=c["nvol"], t_max=t_max, tgrid=c.get("tgrid", "uniform"), vorder=vorder, large_energy_offset=big_offset)
    obs["tgrid_" + c.get("tgrid", "uniform")] = 1
    obs["vgrid_" + c.get("vgrid", "cover")] = 1
    try:
        qha = PhonopyQHA(volumes=vols, electronic_energies=el, temperatures=T, free_energy=ph, cv=cv, entropy=ent, pressure=P, eos=c["eos"], t_max=t_max)
    except Exception as e:
        bad("qha_exception", "PhonopyQHA raised %r on exact-EOS input" % (e,), **feat)
        return {"viol": viol, "nontrivial": False}
    vt = np.array(qha.volume_temperature)
    gt = np.array(qha.gibbs_temperature)
    bt = np.array(qha.bulk_modulus_temperature)
    n = len(vt)
    obs["n_qha"] = 1
    obs["n_temperatures_returned"] = [n]
    if n < 3:
        return {"error": "harness: fewer than 3 temperature points returned"}
    k = min(n, len(T))
    ev_ = np.abs(vt[:k] - V0T[:k]).max() / V0
    eg = np.abs(gt[:k] - E0T[:k]).max() / max(abs(E0), abs(E0 + eshift), B0 * V0 * 1e-2)
    eb = np.abs(bt[:k] - B0T[:k] * EVAngstromToGPa).max() / c["B0_GPa"]
    if big_offset:
        # the recorded finding is a loss of PRECISION of this size (measured on the unchanged tree: V0 2e-3, G 3e-4 of |E|, B0 14 %); anything beyond it
        # is not that finding and is reported
        feat["within_known_precision_envelope"] = bool(ev_ < 6e-3 and eg < 1e-3 and eb < 0.3)
    if ev_ > 1e-7:
        bad("qha_volume", "equilibrium volume differs from the generating V0(T) by %.3e (relative)" % ev_, **feat)
    if eg > 1e-7:
        bad("qha_gibbs", "Gibbs energy differs from the generating E0(T) by %.3e (relative)" % eg, **feat)
    if eb > 1e-6:
        bad("qha_bulk_modulus", "bulk modulus differs from the generating B0(T) by %.3e (relative)" % eb, **feat)
    te = np.array(qha.thermal_expansion)
    cp = np.array(qha.heat_capacity_P_numerical)
    m = len(te)
    want_te = np.array([0.0] + [(V0T[i + 1] - V0T[i - 1]) / (T[i + 1] - T[i - 1]) / V0T[i] for i in range(1, m)])
    obs["n_expansion"] = 1
    # (the quotient amplifies the relative precision of the fitted volumes, ~1e-8, by 2/(T[i+1]-T[i-1]): with the 8 K steps of the unequal grid
    # a fixed 1e-6 of the largest value is below that - thorough tier, seed 0)
    tol_te = np.array([1e-30] + [2e-8 / (T[i + 1] - T[i - 1]) + 1e-6 * abs(want_te[i]) for i in range(1, m)])
    # every temperature gets its own fit: with a strictly increasing generating V0(T) two consecutive temperatures can never come back with
    # bit-identical (volume, Gibbs energy, bulk modulus) unless they were served by one fit
    shared = [i for i in range(1, k) if vt[i] == vt[i - 1] and gt[i] == gt[i - 1] and bt[i] == bt[i - 1] and V0T[i] != V0T[i - 1]]
    obs["n_rows_checked_for_own_fit"] = obs.get("n_rows_checked_for_own_fit", 0) + k - 1
    if shared:
        bad("qha_rows_share_one_fit", "temperatures %s come back with bit-identical volume, Gibbs energy and bulk modulus as the temperature before although the input rows differ "
            "(generating V0 differs by %.3e): they were not fitted on their own" % (np.round(T[shared][:6], 2).tolist(), abs(V0T[shared[0]] - V0T[shared[0] - 1])), eshift=eshift, **{k_: v_ for k_, v_ in feat.items() if k_ != "large_energy_offset"})
    if (np.abs(te - want_te) > tol_te)[1:].any():
        bad("qha_thermal_expansion", "thermal expansion differs from the documented central difference of V0(T) by %.3e (max %.3e)" % (np.abs(te - want_te).max(), np.abs(want_te).max()), **feat)
    want_cp = np.array([0.0] + [2 * c["a2"] * T[i] * EvTokJmol * 1000 for i in range(1, len(cp))])
    if np.abs(cp - want_cp).max() > 1e-5 * max(np.abs(want_cp).max(), 1e-12):
        bad("qha_cp_numerical", "numerical C_P differs from -T d2G/dT2 of the generating G(T) by %.3e (max %.3e)" % (np.abs(cp - want_cp).max(), np.abs(want_cp).max()), **feat)
    # the same call again with the very same array objects (a loop over pressures or EOS reuses its inputs): the same parameters must be recovered
    try:
        qha2 = PhonopyQHA(volumes=vols, electronic_energies=el, temperatures=T, free_energy=ph, cv=cv, entropy=ent, pressure=P, eos=c["eos"], t_max=t_max)
        vt2, gt2, bt2 = np.array(qha2.volume_temperature), np.array(qha2.gibbs_temperature), np.array(qha2.bulk_modulus_temperature)
        obs["n_repeat_same_arrays"] = 1
        k2 = min(len(vt2), len(T))
        if np.abs(vt2[:k2] - V0T[:k2]).max() / V0 > 1e-7 or np.abs(gt2[:k2] - E0T[:k2]).max() / max(abs(E0), B0 * V0 * 1e-2) > 1e-7 or np.abs(bt2[:k2] - B0T[:k2] * EVAngstromToGPa).max() / c["B0_GPa"] > 1e-6:
            bad("qha_repeat_call", "second PhonopyQHA call with the same input arrays does not recover the generating parameters: dV/V0 %.3e, dB/B0 %.3e" % (
                np.abs(vt2[:k2] - V0T[:k2]).max() / V0, np.abs(bt2[:k2] - B0T[:k2] * EVAngstromToGPa).max() / c["B0_GPa"]), repeat=True, **feat)
    except Exception as e:
        bad("qha_exception", "second PhonopyQHA call with the same input arrays raised %r" % (e,), repeat=True, **feat)
    # BulkModulus without temperatures (static EOS fit), with pressure; twice with the same array
    el_static = Fin[0].copy()
    PhonopyQHA(volumes=vols, electronic_energies=el_static, eos=c["eos"], pressure=P)
    qb = PhonopyQHA(volumes=vols, electronic_energies=el_static, eos=c["eos"], pressure=P)
    obs["n_bulk_modulus_class"] = 1
    prm = qb.get_bulk_modulus_parameters()
    if abs(prm[3] - V0T[0]) > 1e-7 * V0 or abs(prm[1] - B0T[0]) > 1e-6 * B0 or abs(prm[2] - Bp) > 1e-5 * Bp or abs(prm[0] - E0T[0]) > 1e-7 * max(abs(E0), B0 * V0 * 1e-2):
        bad("bulk_modulus_fit", "static EOS fit returned %s, generating parameters (%.8g, %.8g, %.8g, %.8g)" % (np.array(prm).tolist(), E0T[0], B0T[0], Bp, V0T[0]), **feat)
    if abs(qb.bulk_modulus - B0T[0]) > 1e-6 * B0:
        bad("bulk_modulus_fit", "bulk_modulus property %.8g != B0 %.8g (eV/A^3)" % (qb.bulk_modulus, B0T[0]), **feat)
    moved = bool(np.abs(V0T[:k] - V0T[0]).max() > 1e-4 * V0)
    obs["pressure_" + str(P)] = 1
    obs["el2d" if c["el2d"] else "el1d"] = 1
    key = "qha|%s|%.6g|%.6g|%s|%s|%s|%d" % (c["eos"], c["B0_GPa"], V0, P, c["el2d"], c["tmax_mode"], c["nvol"])
    return {"viol": viol, "nontrivial": moved, "key": key, "obs": obs, "evals": n,
            "sample": {"kind": "qha", "eos": c["eos"], "B0_GPa": c["B0_GPa"], "Bp": Bp, "V0": V0, "nvol": c["nvol"], "pressure": P, "el2d": c["el2d"], "t_max": t_max,
                       "rel_err_volume": float(ev_), "rel_err_gibbs": float(eg), "rel_err_bulk_modulus": float(eb)}}


def summarize(results, obs, tier):
    inc = []
    for k in ("n_eos", "n_qha", "n_repeat_same_arrays", "n_expansion", "n_bulk_modulus_class", "el2d", "el1d", "pressure_30.0", "pressure_-5.0", "pressure_None"):
        if obs.get(k, 0) == 0:
            inc.append("%s never exercised" % k)
    return {}, inc
