"""C04 - supercell and primitive cell are exact re-tilings with consistent index maps.

Dedicated driver for the always-on tiling contracts (vlib/monitors/contracts.py): integer-arithmetic tiling oracle,
old-style vs Smith-normal-form construction, primitive cells and pure-translation permutation groups, rejection inputs.
"""

from __future__ import annotations

import itertools

import numpy as np

PROP = "C04"
LEVEL = "exploration"
VARIANTS = ("omp",)
CASE_TIMEOUT = 1200
CONTRACTS = True
RULE = ("cases = unit cell (zoo incl. magnetic, hostile re-descriptions: integer shifts, atoms at 1-1e-9, rotated lattice, permuted order) x batch of supercell matrices "
        "({-1,0,1}^(3x3) with det>0: sample in quick, all 5904... in thorough; diagonal; random entries to +-4) x {old style, SNF} + primitive matrices "
        "(P,F,I,A,C,R,auto, explicit) on the built supercells + rejection inputs (det<=0, wrong centring, non-integer volume ratio); "
        "non-trivial = matrix not the identity; distinct = (unit cell, matrix, algorithm) / (unit cell, supercell, primitive matrix); "
        "additions of rounds 6-8: isotope-substituted unit cells (masses differing within one symbol); primitive cell requested in another atom order: cell, p2s_map and contracts follow; tolerance kind builds without symmetry search")
ASSUMPTIONS = [
    "a constructor that returns an empty cell or raises counts as 'rejected'",
    "tolerances: lattice 1e-10 relative, integrality of image offsets 1e-8, masses/moments exact copy",
]
MIN_NONTRIVIAL = {"quick": 500, "thorough": 5000}


def all_pm1():
    out = []
    for t in itertools.product((-1, 0, 1), repeat=9):
        m = np.array(t).reshape(3, 3)
        d = int(round(np.linalg.det(m)))
        if d > 0:
            out.append(m.tolist())
    return out


def gen_cases(tier, seed):
    from vlib.gen import crystals

    rng = np.random.default_rng([seed, 4])
    pm1 = all_pm1()
    cells = ["tric3", "afm_cr", "rutile", "rocksalt", "hcp", "mono_c", "afm_cr_nc", "ortho_a", "rhomb_hex", "bcc", "wurtzite", "fcc"]
    cases = []
    nb = 30 if tier == "quick" else 160
    per_batch = 24
    for b in range(nb):
        name = cells[b % len(cells)]
        mats = []
        if tier == "thorough" and b < 6:
            mats = None  # placeholder: the exhaustive batches are generated below
        ms = [pm1[i] for i in rng.choice(len(pm1), per_batch // 2, replace=False)]
        for _ in range(per_batch // 4):
            d = rng.integers(1, 5, 3)
            if rng.integers(3) == 0:  # proper diagonal matrices with two negative entries (det > 0)
                i, j = rng.choice(3, 2, replace=False)
                d[i] *= -1
                d[j] *= -1
            ms.append(np.diag(d).tolist())
        tries = 0
        while len(ms) < per_batch and tries < 1000:
            tries += 1
            m = rng.integers(-4, 5, size=(3, 3))
            d = int(round(np.linalg.det(m)))
            if 0 < d <= (24 if crystals.natoms(name) <= 4 else 8):
                ms.append(m.tolist())
        cases.append({"kind": "supercells", "crystal": {"name": name, "order": ["asis", "random", "interleave"][rng.integers(3)], "order_seed": int(rng.integers(1000)),
                                                         "int_shift": bool(rng.integers(2)), "edge": bool(rng.integers(2)),
                                                         "rot_seed": int(rng.integers(1000)) if rng.integers(2) else None,
                                                         "isotope_seed": int(rng.integers(1000)) if rng.integers(3) == 0 else None},
                      "mats": ms})
    if tier == "thorough":
        # exhaustive {-1,0,1} matrices with det>0 for 3 cells, both algorithms
        for name in ("tric3", "afm_cr", "rutile"):
            for i in range(0, len(pm1), 200):
                cases.append({"kind": "supercells", "crystal": {"name": name, "order": "random", "order_seed": 5, "int_shift": True, "edge": True, "rot_seed": 11},
                              "mats": pm1[i:i + 200], "exhaustive": True})
    # primitive cells
    for name, pms in (("fcc", ["F", "auto"]), ("diamond", ["F", "auto"]), ("rocksalt", ["F", "auto"]), ("bcc", ["I", "auto"]), ("betasn", ["I", "auto"]),
                      ("ortho_c", ["C", "auto"]), ("mono_c", ["C", "auto"]), ("ortho_a", ["A", "auto"]), ("rhomb_hex", ["R", "auto"]), ("ortho_i", ["I", "auto"]),
                      ("ortho_f", ["F", "auto"]), ("tric3", ["P", "auto"]), ("rutile", ["P", "auto"]), ("afm_cr", ["P"]), ("corundum_like", ["R", "auto"]),
                      ("fluorite", ["F", "auto"]), ("anatase", ["I", "auto"]), ("zincblende", ["F"])):
        for pmn in pms:
            for rep in range(2 if tier == "quick" else 8):
                cases.append({"kind": "primitive", "crystal": {"name": name, "order": ["asis", "random", "interleave"][rng.integers(3)], "order_seed": int(rng.integers(1000)),
                                                                "int_shift": bool(rng.integers(2)), "edge": bool(rng.integers(2)),
                                                                "rot_seed": int(rng.integers(1000)) if rng.integers(2) else None,
                                                                # (only without a centring reduction: masses that differ between atoms related by a centring translation would make the
                                                                # requested primitive cell not a period of the crystal - illegitimate input, first version of this dimension)
                                                                "isotope_seed": int(rng.integers(1000)) if (pmn == "P" and rng.integers(2) == 0) else None},
                              "pm": pmn, "mseed": int(rng.integers(10 ** 6)), "dense": bool(rng.integers(2))})
    # explicit primitive matrices relative to the supercell: supercell = S, primitive = inverse of a sub-tiling
    for rep in range(10 if tier == "quick" else 60):
        cases.append({"kind": "primitive_explicit", "crystal": {"name": ["tric3", "rutile", "afm_cr", "hcp"][rep % 4], "order": "random", "order_seed": int(rng.integers(1000)),
                                                                 "int_shift": True, "edge": bool(rng.integers(2))},
                      "mseed": int(rng.integers(10 ** 6))})
    # symmetry tolerance x supercell size: the tolerance is a length, it must not decide whether an exactly tileable input is accepted
    for i in range(10 if tier == "quick" else 60):
        name, pm = [("sc", "P"), ("bcc", "I"), ("rocksalt", "F"), ("fcc", "F"), ("cscl", "P"), ("hcp", "P")][i % 6]
        n = int(rng.integers(2, 6))
        S = [np.diag([n, n, n]).tolist(), np.diag([n, n - 1, n + 1]).tolist(), [[n, 1, 0], [0, n, 0], [0, 0, n]], [[-n, n, n], [n, -n, n], [n, n, -n]]][int(rng.integers(4))]
        cases.append({"kind": "tolerance", "crystal": {"name": name, "order": ["asis", "random"][int(rng.integers(2))], "order_seed": int(rng.integers(1000))}, "pm": pm, "S": S,
                      "symprec": float([1e-5, 1e-3, 1e-2, 5e-2, 1e-7][int(rng.integers(5))]), "_cost": 20,
                      # unit-cell atoms displaced independently by up to 0.3 symprec (a relaxed / rounded conventional cell): still tileable within the tolerance
                      "noise": float([0.0, 0.3][int(rng.integers(2))]), "nseed": int(rng.integers(10 ** 6))})
    cases.append({"kind": "reject"})
    return cases


def _same_atom_set(a, b, tol=1e-6):
    """Same multiset of (species, position modulo 1): robust matching, no rounding of coordinates."""
    if len(a) != len(b):
        return False
    xa, xb = np.array(a.scaled_positions), np.array(b.scaled_positions)
    sa, sb = np.array(a.symbols), np.array(b.symbols)
    used = np.zeros(len(b), bool)
    for i in range(len(a)):
        d = xb - xa[i]
        d -= np.rint(d)
        ok = (np.abs(d).max(axis=1) < tol) & (sb == sa[i]) & ~used
        j = np.nonzero(ok)[0]
        if len(j) != 1:
            return False
        used[j[0]] = True
    return bool(used.all())


def run_case(c):
    from phonopy.structure.cells import Primitive, Supercell, get_primitive_matrix, guess_primitive_matrix
    from vlib.gen import crystals
    from vlib.monitors import contracts as K

    viol, keys = [], []
    obs = {}

    def bad(kind, msg, **kw):
        if len(viol) < 8:
            viol.append(dict(kind=kind, msg=msg, **kw))

    def check_super(sc, unit, S, algo):
        probs = K.supercell_tiling_problems(sc, unit, S)
        Sm = np.array(S)
        for kind, msg in probs[:2]:
            bad("tiling_supercell_" + kind, msg, algorithm=algo, matrix=Sm.tolist(), matrix_is_symmetric=bool(np.array_equal(Sm, Sm.T)), n_unit=len(unit), via="driver")
        return not probs

    if c["kind"] == "supercells":
        cd = crystals.make(**c["crystal"])
        unit = crystals.to_atoms(cd)
        frng = np.random.default_rng(len(c["mats"]) + sum(int(v) for v in np.ravel(c["mats"][0])))
        for S in c["mats"]:
            built = {}
            for old in (True, False):
                algo = "old" if old else "snf"
                # the matrix as the caller may hold it: nested list, int64 / intc / float arrays, Fortran order, non-owning view
                form = ["list", "int64", "intc", "float", "fortran", "view"][int(frng.integers(6))]
                S_in = {"list": lambda: [list(map(int, r)) for r in S], "int64": lambda: np.array(S, dtype="int64"), "intc": lambda: np.array(S, dtype="intc"),
                        "float": lambda: np.array(S, dtype="double"), "fortran": lambda: np.asfortranarray(np.array(S, dtype="int64")),
                        "view": lambda: np.array(S, dtype="int64").T.copy().T}[form]()
                obs["matrix_form_" + form] = obs.get("matrix_form_" + form, 0) + 1
                try:
                    sc = Supercell(unit, S_in, is_old_style=old)
                except Exception as e:
                    bad("supercell_refused", "tileable input raised %r" % (e,), algorithm=algo, matrix=S)
                    continue
                obs["supercell_" + algo] = obs.get("supercell_" + algo, 0) + 1
                if len(sc) == 0:
                    bad("supercell_refused", "tileable input was refused (empty supercell)", algorithm=algo, matrix=S)
                    continue
                ok = check_super(sc, unit, S, algo)
                built[algo] = sc
                d = abs(int(round(np.linalg.det(np.array(S)))))
                obs.setdefault("dets", [])
                if d not in obs["dets"]:
                    obs["dets"].append(d)
                if not np.array_equal(np.array(S), np.eye(3, dtype=int)):
                    keys.append("%s|%s|%s|%s" % (c["crystal"]["name"], c["crystal"].get("order_seed"), S, algo))
                Sm = np.array(S)
                obs["nonsymmetric_matrix"] = obs.get("nonsymmetric_matrix", 0) + int(not np.array_equal(Sm, Sm.T))
            if len(built) == 2:
                # same set of atoms (species, position modulo the supercell lattice) - compare in Cartesian-free way:
                # express SNF cell's atoms in the old cell's basis (they must span the same lattice)
                a, b = built["old"], built["snf"]
                M = np.array(b.cell) @ np.linalg.inv(np.array(a.cell))
                if np.abs(M - np.rint(M)).max() < 1e-8 and abs(abs(np.linalg.det(np.rint(M))) - 1) < 1e-8:
                    xb = np.array(b.scaled_positions) @ M
                    from phonopy.structure.atoms import PhonopyAtoms

                    bb = PhonopyAtoms(cell=a.cell, scaled_positions=xb, symbols=b.symbols)
                    obs["old_vs_snf_compared"] = obs.get("old_vs_snf_compared", 0) + 1
                    if not _same_atom_set(a, bb):
                        bad("old_vs_snf", "old-style and SNF constructions give different sets of atoms", matrix=S)
                else:
                    Sm = np.array(S)
                    bad("old_vs_snf", "old-style and SNF supercells span different lattices", matrix=S, algorithm="snf", matrix_is_symmetric=bool(np.array_equal(Sm, Sm.T)))
    elif c["kind"] in ("primitive", "primitive_explicit"):
        cd = crystals.make(**c["crystal"])
        unit = crystals.to_atoms(cd)
        rng = np.random.default_rng(c["mseed"])
        if c["kind"] == "primitive":
            S = np.diag(rng.integers(1, 4, 3)) if rng.integers(2) else np.array([[2, 1, 0], [0, 1, 0], [0, 1, 2]])
            if len(unit) * abs(int(round(np.linalg.det(S)))) > 150:
                S = np.diag([2, 1, 1])
            sc = Supercell(unit, S)
            if c["pm"] == "auto":
                if unit.magnetic_moments is not None:
                    return {"skip": "auto with magmoms is documented as rejected"}
                pmu = guess_primitive_matrix(unit)
            else:
                pmu = get_primitive_matrix(c["pm"])
            pmat = np.linalg.inv(np.array(S, float)) @ np.array(pmu, float)
            dense = c["dense"]
        else:
            # supercell of a primitive unit cell; primitive matrix = inverse of an integer matrix dividing it
            for _ in range(100):
                A = rng.integers(-2, 3, size=(3, 3))
                if 0 < int(round(np.linalg.det(A))) <= 6:
                    break
            B = np.array([[1, 0, 0], [rng.integers(0, 2), 1, 0], [0, rng.integers(0, 2), 1]])  # unimodular re-description
            S = A @ B if int(round(np.linalg.det(A @ B))) > 0 else A
            sc = Supercell(unit, S)
            T = np.array([[1, 1, 0], [0, 1, 0], [0, 0, 1]]) if rng.integers(2) else np.eye(3)
            pmat = np.linalg.inv(np.array(S, float)) @ T  # another basis of the unit lattice
            dense = bool(rng.integers(2))
        if len(sc) == 0:
            return {"skip": "supercell refused"}
        try:
            pr = Primitive(sc, pmat, store_dense_svecs=dense)
        except Exception as e:
            bad("primitive_refused", "tileable primitive input raised %r" % (e,), pmat=np.array(pmat).tolist())
            pr = None
        if pr is not None:
            obs["primitive_built"] = 1
            probs = K.primitive_tiling_problems(pr, sc, pmat)
            for kind, msg in probs[:2]:
                bad("tiling_primitive_" + kind, msg, pmat=np.array(pmat).tolist(), via="driver")
            if len(pr) > 1:
                # the same primitive cell with its atoms requested in another order (public positions_to_reorder argument): cell AND maps must follow
                perm = rng.permutation(len(pr))
                if np.array_equal(perm, np.arange(len(pr))):
                    perm = perm[::-1]
                want_pos = np.array(pr.scaled_positions)[perm]
                try:
                    pr2 = Primitive(sc, pmat, store_dense_svecs=dense, positions_to_reorder=want_pos)
                except Exception as e:
                    bad("primitive_refused", "Primitive(positions_to_reorder=its own positions, permuted) raised %r" % (e,), pmat=np.array(pmat).tolist(), reordered=True)
                    pr2 = None
                if pr2 is not None:
                    obs["primitive_reordered"] = obs.get("primitive_reordered", 0) + 1
                    dpos = np.array(pr2.scaled_positions) - want_pos
                    dpos -= np.rint(dpos)
                    if list(pr2.symbols) != [pr.symbols[i] for i in perm] or np.abs(dpos).max() > 1e-8:
                        bad("tiling_primitive_reorder", "primitive cell does not list its atoms in the requested order %s" % perm.tolist(), pmat=np.array(pmat).tolist(), reordered=True)
                    if list(np.array(pr2.p2s_map)) != [int(np.array(pr.p2s_map)[i]) for i in perm]:
                        bad("tiling_primitive_reorder", "atoms requested in the order %s: p2s_map is %s, the same atoms of the supercell are %s" % (
                            perm.tolist(), np.array(pr2.p2s_map).tolist(), [int(np.array(pr.p2s_map)[i]) for i in perm]), pmat=np.array(pmat).tolist(), reordered=True)
                    for kind, msg in K.primitive_tiling_problems(pr2, sc, pmat)[:2]:
                        bad("tiling_primitive_" + kind, "(atoms requested in the order %s) %s" % (perm.tolist(), msg), pmat=np.array(pmat).tolist(), via="driver", reordered=True)
            N = len(sc) // max(1, len(pr))
            obs.setdefault("primitive_N", [])
            if N not in obs["primitive_N"]:
                obs["primitive_N"].append(N)
            if N > 1:
                keys.append("prim|%s|%s|%s|%s" % (c["crystal"]["name"], np.array(S).tolist(), np.round(pmat, 6).tolist(), c["crystal"].get("order_seed")))
    elif c["kind"] == "tolerance":
        from phonopy import Phonopy
        from phonopy.structure.cells import get_primitive, get_supercell

        cd = crystals.make(**c["crystal"])
        unit = crystals.to_atoms(cd)
        S = np.array(c["S"])
        if len(unit) * abs(int(round(np.linalg.det(S)))) > 260:
            S = np.diag([3, 3, 3])
        sp = c["symprec"]
        if c.get("noise", 0) > 0 and sp >= 1e-5:
            nrng = np.random.default_rng(c.get("nseed", 0))
            dc = nrng.standard_normal((len(unit), 3))
            dc *= c["noise"] * sp * nrng.uniform(0.3, 1.0, (len(unit), 1)) / np.linalg.norm(dc, axis=1)[:, None]
            unit.scaled_positions = np.array(unit.scaled_positions) + dc @ np.linalg.inv(np.array(unit.cell))
            obs["tolerance_noisy_cells"] = 1
        pmu = np.array(get_primitive_matrix(c["pm"]), float)
        nprim = int(round(abs(np.linalg.det(S)) / abs(np.linalg.det(pmu))))
        feat = dict(symprec=sp, matrix=S.tolist(), pm=c["pm"], n_primitive_cells=nprim, symprec_times_cells=float(sp * nprim))
        for route in ("functions", "Phonopy"):
            try:
                if route == "functions":
                    sc = get_supercell(unit, S, symprec=sp)
                    pmat = np.linalg.inv(np.array(S, float)) @ pmu
                    pr = get_primitive(sc, pmat, symprec=sp)
                else:
                    # (is_symmetry=False: this kind is about TILING within the tolerance; whether spglib's operations found at a loose tolerance can be
                    # turned into atom permutations by phonopy's own matcher at the same tolerance is another question - thorough tier, seed 0:
                    # symprec 0.05 with 0.015 A of noise was refused there, in Symmetry, not in the cell builders)
                    ph_ = Phonopy(unit, supercell_matrix=S, primitive_matrix=c["pm"] if c["pm"] != "P" else None, symprec=sp, log_level=0, is_symmetry=False)
                    sc, pr = ph_.supercell, ph_.primitive
                    pmat = np.linalg.inv(np.array(S, float)) @ pmu
            except Exception as e:
                bad("tileable_refused", "exactly tileable input refused at symprec=%g with %d primitive cells in the supercell (%s): %r" % (sp, nprim, route, e), route=route, **feat)
                continue
            obs["tolerance_built"] = obs.get("tolerance_built", 0) + 1
            for kind, msg in K.supercell_tiling_problems(sc, unit, S)[:1]:
                bad("tiling_supercell_" + kind, msg, route=route, **feat)
            for kind, msg in K.primitive_tiling_problems(pr, sc, pmat, symprec=max(sp, 1e-5))[:1]:
                bad("tiling_primitive_" + kind, msg, route=route, **feat)
        obs["tolerance_symprec_%g" % sp] = 1
        keys.append("tol|%s|%s|%s|%g" % (c["crystal"]["name"], S.tolist(), c["pm"], sp))
    elif c["kind"] == "reject":
        unit = crystals.to_atoms(crystals.make("tric3"))
        fccu = crystals.to_atoms(crystals.make("fcc"))
        scu = crystals.to_atoms(crystals.make("cscl"))
        tried = 0
        for S in ([[1, 0, 0], [0, 1, 0], [0, 0, 0]], [[1, 1, 0], [1, 1, 0], [0, 0, 1]], [[-1, 0, 0], [0, 1, 0], [0, 0, 1]], [[0, 1, 0], [1, 0, 0], [0, 0, 1]],
                  [[2, 0, 0], [0, -1, 0], [0, 0, 1]], [[0, 0, 0], [0, 0, 0], [0, 0, 0]]):
            for old in (True, False):
                tried += 1
                try:
                    sc = Supercell(unit, S, is_old_style=old)
                except Exception:
                    obs["rejected_by_exception"] = obs.get("rejected_by_exception", 0) + 1
                    continue
                if len(sc) == 0:
                    obs["rejected_by_empty"] = obs.get("rejected_by_empty", 0) + 1
                    continue
                probs = K.supercell_tiling_problems(sc, unit, S)
                if probs or int(round(np.linalg.det(np.array(S)))) <= 0:
                    bad("misbuilt_untileable_supercell", "matrix with det<=0 produced a non-empty supercell: %s" % (probs[:1],), matrix=S, algorithm="old" if old else "snf")
        # wrong centring symbol / non-integer volume ratio for the primitive cell
        for u, pmn in ((scu, "F"), (scu, "I"), (unit, "C"), (unit, "R"), (fccu, "I"), (fccu, "A"), (scu, [[0.5, 0, 0], [0, 1, 0], [0, 0, 1]]),
                       (unit, [[0.7, 0, 0], [0, 1, 0], [0, 0, 1]]), (fccu, [[1, 0, 0], [0, 1, 0], [0, 0, 0.5]])):
            tried += 1
            sc = Supercell(u, np.diag([2, 2, 2]))
            pmat = np.linalg.inv(np.diag([2.0, 2, 2])) @ np.array(get_primitive_matrix(pmn), float)
            try:
                pr = Primitive(sc, pmat)
            except Exception:
                obs["rejected_by_exception"] = obs.get("rejected_by_exception", 0) + 1
                continue
            if len(pr) == 0:
                obs["rejected_by_empty"] = obs.get("rejected_by_empty", 0) + 1
                continue
            probs = K.primitive_tiling_problems(pr, sc, pmat)
            if probs:
                bad("misbuilt_untileable_primitive", "ill-suited primitive matrix %s produced a cell that does not tile: %s" % (pmn, probs[:1]))
            else:
                obs["accepted_valid_tiling"] = obs.get("accepted_valid_tiling", 0) + 1
        obs["rejection_inputs"] = tried
        keys.append("reject")
    return {"viol": viol, "nontrivial": bool(keys), "keys": keys, "evals": max(1, len(c.get("mats", [1])) * 2), "obs": obs,
            "sample": {"kind": c["kind"], "crystal": c.get("crystal"), "first_matrices": c.get("mats", [])[:3], "pm": c.get("pm")}}


def summarize(results, obs, tier):
    inc = []
    ce = obs.get("contracts", {})
    if ce.get("Supercell.__init__", 0) == 0 or ce.get("Primitive.__init__", 0) == 0:
        inc.append("tiling contracts were never evaluated")
    if obs.get("rejection_inputs", 0) == 0:
        inc.append("rejection inputs not exercised")
    if obs.get("nonsymmetric_matrix", 0) == 0:
        inc.append("no non-symmetric supercell matrix was exercised")
    return {"contract_evaluations": ce}, inc
