"""C01 - finite-displacement solver recovers exactly harmonic force constants.

Monitor shape: reference-model monitor at the API boundary. The harness owns the harmonic model Phi
(pair-spring image sum, or a random array projected onto the supercell's space group by the harness'
own group action), computes F = -Phi u for the displacements phonopy generated, and compares what
produce_force_constants() returns with Phi (full) or Phi[p2s_map] (compact).
"""

from __future__ import annotations

import numpy as np

PROP = "C01"
LEVEL = "exploration"
VARIANTS = ("omp",)
EXCEPTION_IS_VIOLATION = True  # "the generated displacement set is always sufficient" is part of the claim
CASE_TIMEOUT = 1200
RULE = ("cases = crystal zoo x supercell matrix (diagonal, non-diagonal, centring type) x primitive matrix (none|centring|auto) "
        "x is_plusminus(auto|True|False) x is_diagonal x distance x full/compact x is_symmetry x model(pair|projected); "
        "non-trivial = model has max|Phi|>0 and at least one non-zero block between different atoms; "
        "distinct = (crystal, atom order, supercell matrix, primitive matrix, option tuple, model); "
        "additions of rounds 6-8: forces handed over in several memory layouts; a second structure solved in the same process; thread counts 1-16; kind directions: for supercell matrices with entries up to 3 the displaced atoms cover all atoms and each atom's displacements with their site-symmetry images span 3 dimensions (own spglib call, rank test)")
ASSUMPTIONS = [
    "extension built from the working tree through the nanobind shim (argument conversion only)",
    "spglib operations of the supercell are used to build the projected model (brute-force atom matching by the harness)",
    "only the traditional finite-difference solver is decided (symfc/ALM absent)",
]
TOL = 1e-9


def gen_cases(tier, seed):
    from vlib.gen import crystals, setup

    rng = np.random.default_rng([seed, 1])
    max_atoms = 64 if tier == "quick" else 128
    per_crystal = 10 if tier == "quick" else 160
    names = crystals.ZOO + crystals.MAGNETIC
    cases = []
    for name in names:
        nu = crystals.natoms(name)
        smats = setup.smat_list(max(1, max_atoms // nu), rng=rng, n_random=3 if tier == "quick" else 10)
        if not smats:
            continue
        for k in range(per_crystal):
            sm = smats[rng.integers(len(smats))]
            c = {
                "crystal": {"name": name, "order": ["asis", "interleave", "random", "grouped"][rng.integers(4)],
                            "order_seed": int(rng.integers(1000)), "int_shift": bool(rng.integers(2)),
                            "rot_seed": int(rng.integers(1000)) if rng.integers(3) == 0 else None,
                            "ext_symbols": bool(rng.integers(5) == 0) and name not in crystals.MAGNETIC},
                "smat": sm,
                # 'auto' is documented as rejected for cells with magnetic moments (outside the quantifier)
                "pmat": ["P", "centring", "auto"][rng.integers(3 if name not in crystals.MAGNETIC else 2)],
                "is_plusminus": ["auto", True, False][rng.integers(3)],
                "is_diagonal": bool(rng.integers(2)),
                "distance": [1e-3, 0.01, 0.3][rng.integers(3)],
                "full": bool(rng.integers(2)),
                "is_symmetry": bool(rng.integers(6) != 0),
                "store_dense_svecs": bool(rng.integers(2)),
                "model": ["pair", "proj", "central"][rng.integers(3)],  # central: bond-stretching springs only (exact zeros among the forces)
                "mseed": int(rng.integers(10 ** 6)),
                # a second structure solved in the same process right after the first: the same crystal with its atoms listed in another order,
                # or the same crystal in the supercell with permuted axes (same atom count, same site symmetries, different arrangement)
                "twin": [None, None, "order", "axes"][rng.integers(4)],
                # the compiled distribution of the rows over the symmetry images has an OpenMP region: any thread count, same constants
                "_threads": [1, 2, 3, 5, 7, 16][int(rng.integers(6))],
                "_cost": nu * setup.det3(sm),
            }
            cases.append(c)
    # kind directions: sufficiency of the generated displacement set alone (no forces, no solver - cheap, so many supercell matrices with
    # entries up to 3, where the site-symmetry matrices in the supercell basis are no longer made of 0 and +-1)
    for b in range(24 if tier == "quick" else 240):
        name = crystals.ZOO[int(rng.integers(len(crystals.ZOO)))]  # (non-magnetic: the harness' own symmetry search does not know moments)
        nu = crystals.natoms(name)
        mats = []
        tries = 0
        while len(mats) < 8 and tries < 20000:
            tries += 1
            m = rng.integers(-2, 4, size=(3, 3))
            d = setup.det3(m)
            if 0 < d * nu <= 64 and (m != np.diag(np.diagonal(m))).any():
                mats.append(m.tolist())
        if mats:
            cases.append({"kind": "directions", "crystal": {"name": name, "order": ["asis", "random"][int(rng.integers(2))], "order_seed": int(rng.integers(1000))}, "mats": mats,
                          "is_plusminus": ["auto", True, False][int(rng.integers(3))], "is_diagonal": bool(rng.integers(2)), "is_trigonal": bool(rng.integers(4) == 0), "_cost": 30})
    return cases


def _directions_case(c):
    """Every supercell atom is the image of a displaced atom, and for each displaced atom the displacements together with their images under the
    atom's site-symmetry group span three dimensions (the condition under which first-order finite differences determine its rows)."""
    from vlib.gen import setup

    viol, keys, obs = [], [], {}
    for S in c["mats"]:
        try:
            ph, cd = setup.build_phonopy({"crystal": c["crystal"], "smat": S})
        except Exception as e:
            obs["directions_build_refused"] = obs.get("directions_build_refused", 0) + 1
            obs.setdefault("directions_build_refused_why", [])
            if len(obs["directions_build_refused_why"]) < 2:
                obs["directions_build_refused_why"].append("%s %s: %r" % (c["crystal"]["name"], S, e))
            continue
        ph.generate_displacements(distance=0.01, is_plusminus=c["is_plusminus"], is_diagonal=c["is_diagonal"], is_trigonal=c["is_trigonal"])
        sc = ph.supercell
        L, x = np.array(sc.cell), np.array(sc.scaled_positions)
        import spglib

        from vlib.gen import setup as _s

        ds = spglib.get_symmetry((L, x, _s.numbers_of(sc.symbols)), symprec=1e-5)  # the harness' own call, species from the symbol strings
        if ds is None:
            continue
        rots, trans = np.array(ds["rotations"]), np.array(ds["translations"])
        firsts = {}
        for fa in ph.dataset["first_atoms"]:
            firsts.setdefault(int(fa["number"]), []).append(np.array(fa["displacement"], float))
        # coverage: orbit of the displaced atoms under the space group = all atoms
        covered = set()
        for a in firsts:
            img = x[a] @ rots.transpose(0, 2, 1) + trans  # (nops, 3): R x_a + t
            for y in img:
                dd = x - y
                dd -= np.rint(dd)
                covered.update(np.where(np.abs(dd @ L).max(axis=1) < 1e-4)[0].tolist())
        obs["directions_supercells"] = obs.get("directions_supercells", 0) + 1
        big = int(np.abs(rots).max() > 1)
        obs["directions_site_matrices_with_entries_gt1"] = obs.get("directions_site_matrices_with_entries_gt1", 0) + big
        if len(covered) != len(sc):
            viol.append({"kind": "displacements_insufficient", "msg": "supercell %s: %d of %d atoms are not symmetry images of any displaced atom" % (S, len(sc) - len(covered), len(sc)), "smat": S})
            continue
        Li = np.linalg.inv(L)
        for a, dl in firsts.items():
            vecs = []
            for R, t in zip(rots, trans):
                dd = R @ x[a] + t - x[a]
                dd -= np.rint(dd)
                if np.abs(dd @ L).max() < 1e-4:  # site symmetry of atom a
                    Rc = L.T @ R @ Li.T
                    vecs += [Rc @ d_ for d_ in dl]
            sv = np.linalg.svd(np.array(vecs), compute_uv=False)
            if len(sv) < 3 or sv[2] < 1e-6 * sv[0]:
                viol.append({"kind": "displacements_insufficient", "msg": "supercell %s, displaced atom %d: its %d displacement(s) and their images under the site-symmetry group span only %d dimension(s) "
                             "(singular values %s)" % (S, a + 1, len(dl), int((sv > 1e-6 * sv[0]).sum()), np.round(sv, 6).tolist()), "smat": S, "n_displacements": len(ph.dataset["first_atoms"]),
                             "is_diagonal": c["is_diagonal"], "is_plusminus": c["is_plusminus"]})
                break
        keys.append("dir|%s|%s|%s|%s" % (c["crystal"]["name"], S, c["is_diagonal"], c["is_plusminus"]))
    return {"viol": viol[:6], "nontrivial": bool(keys), "keys": keys, "obs": obs, "evals": len(c["mats"]),
            "sample": {"kind": "directions", "crystal": c["crystal"], "first": c["mats"][:2]}}


def run_case(c):
    if c.get("kind") == "directions":
        return _directions_case(c)
    r = _run_one(c)
    if c.get("twin") and not r.get("skip") and not r.get("error"):
        c2 = dict(c, mseed=c["mseed"] + 1)
        if c["twin"] == "order":
            c2["crystal"] = dict(c["crystal"], order="random", order_seed=c["crystal"]["order_seed"] + 7)
        else:
            Pm = np.array([[0, 1, 0], [0, 0, 1], [1, 0, 0]])
            c2["smat"] = (Pm @ np.array(c["smat"]) @ Pm.T).tolist()
        r2 = _run_one(c2)
        r.setdefault("obs", {})["twin_" + c["twin"]] = 1
        for v in r2.get("viol", []) or []:
            v = dict(v, twin=c["twin"], msg="(second structure solved in the same process, twin=%s) %s" % (c["twin"], v.get("msg")))
            r.setdefault("viol", []).append(v)
        if r2.get("error"):
            r["error"] = r2["error"]
    return r


def _run_one(c):
    from vlib.gen import models, setup

    try:
        ph, cd = setup.build_phonopy(dict(c, pmat=None))  # resolve centring below
        pm = setup.resolve_pmat(cd, c["pmat"])
        if pm != "P":
            ph, cd = setup.build_phonopy(dict(c, pmat=pm))
    except AttributeError as e:
        if c["crystal"]["name"] in __import__("vlib.gen.crystals", fromlist=["x"]).MAGNETIC and "NoneType" in str(e):
            # spglib.get_magnetic_symmetry_dataset returned None (third-party failure on this cell): nothing to decide
            return {"skip": "spglib_magnetic_dataset_none", "nontrivial": False}
        raise
    sc = ph.supercell
    n = len(sc)
    L = np.array(sc.cell)
    x = np.array(sc.scaled_positions)
    if c["model"] == "pair":
        fc = models.pair_fc(L, x, sc.symbols, cutoff=4.6)
    elif c["model"] == "central":
        fc = models.pair_fc(L, x, sc.symbols, cutoff=3.3, transverse=0.0)
        if np.abs(fc).max() < 1e-8:
            fc = models.pair_fc(L, x, sc.symbols, cutoff=4.6, transverse=0.0)
    else:
        try:
            rots, trans = setup.supercell_ops(ph)
        except models.SpglibFailed:
            return {"skip": "spglib_none_in_oracle", "nontrivial": False}
        fc = models.project_ops(L, x, rots, trans, np.random.default_rng(c["mseed"]), decay=2.5)
    scale = np.abs(fc).max()
    offdiag = fc.copy()
    offdiag[np.arange(n), np.arange(n)] = 0
    nontrivial = bool(scale > 0 and np.abs(offdiag).max() > 1e-6 * scale) if n > 1 else bool(scale > 0)
    ph.generate_displacements(distance=c["distance"], is_plusminus=c["is_plusminus"], is_diagonal=c["is_diagonal"])
    ndisp = len(ph.dataset["first_atoms"])
    # the forces reach phonopy through either documented route and in whatever container / memory layout the caller holds them
    import copy

    from vlib.gen.layout import relayout

    lrng = np.random.default_rng(c.get("mseed", 0) + 11)
    F = setup.harmonic_forces_type1(ph, fc)
    route = ["forces_setter", "dataset_setter"][int(lrng.integers(2))]
    if route == "forces_setter":
        f_in, fkind = relayout(F, lrng)
        ph.forces = f_in
    else:
        ds = copy.deepcopy(ph.dataset)
        fkind = "per-displacement"
        from vlib.gen.layout import KINDS

        for d_, f_ in zip(ds["first_atoms"], F):
            # (numpy arrays only: the per-displacement 'forces' entry of a type-1 dataset is documented without a type and a plain list is
            # refused with a TypeError by the solver - a refusal, not a wrong result)
            d_["forces"], fkind = relayout(f_, lrng, kind=[k for k in KINDS if k != "list"][int(lrng.integers(len(KINDS) - 1))])
        ph.dataset = ds
    ph.produce_force_constants(calculate_full_force_constants=c["full"])
    got = np.array(ph.force_constants)
    p2s = np.array(ph.primitive.p2s_map)
    viol = []
    if c["full"]:
        want = fc
        if got.shape != (n, n, 3, 3):
            viol.append({"kind": "fc_shape", "msg": "full FC requested, got shape %s" % (got.shape,)})
            want = None
    else:
        want = fc[p2s] if got.shape[0] == len(p2s) else (fc if got.shape[0] == n else None)
        if want is None:
            viol.append({"kind": "fc_shape", "msg": "compact FC requested, got shape %s" % (got.shape,)})
    err = None
    if want is not None:
        err = float(np.abs(got - want).max())
        if not np.isfinite(err) or err > TOL * max(scale, 1e-300):
            viol.append({"kind": "fc_mismatch", "msg": "produced FC differ from the model by %.3e (scale %.3e)" % (err, scale),
                         "rel_err": err / scale if scale else None, "full": c["full"], "model": c["model"], "natom": n, "ndisp": ndisp})
    key = "%s|%s|%s|%s|%s|%s|%s|%s|%s|%s" % (c["crystal"]["name"], c["crystal"]["order"], c["smat"], c["pmat"], c["is_plusminus"],
                                             c["is_diagonal"], c["distance"], c["full"], c["is_symmetry"], c["model"])
    sg = None
    try:
        sg = ph.symmetry.dataset.number if c["is_symmetry"] and ph.symmetry.dataset is not None else None
    except Exception:
        pass
    return {
        "viol": viol, "nontrivial": nontrivial, "key": key,
        "obs": {"max_rel_err": 0, "spacegroups": [sg] if sg else [], "natoms": [n], "ndisp_total": ndisp,
                "compact_cases": int(not c["full"]), "nosym_cases": int(not c["is_symmetry"]), "model_" + c["model"]: 1,
                "nprim_lt_nsuper": int(len(p2s) < n), "route_" + route: 1, "forces_layout_" + fkind: 1},
        "maxerr": (err / scale) if (err is not None and scale) else None,
        "sample": {"crystal": c["crystal"], "smat": c["smat"], "pmat": c["pmat"], "options": [c["is_plusminus"], c["is_diagonal"], c["distance"], c["full"], c["is_symmetry"]],
                   "model": c["model"], "natom": n, "ndisp": ndisp, "rel_err": (err / scale) if (err is not None and scale) else None},
    }


def summarize(results, obs, tier):
    errs = [r["maxerr"] for r in results if r.get("maxerr") is not None]
    extra = {"max_rel_err_observed": max(errs) if errs else None, "n_compared": len(errs)}
    inc = []
    if not errs:
        inc.append("no force-constant comparison was made")
    return extra, inc
