"""C18 - command-line tools are faithful front-ends of the library.

Process-boundary monitor: the phonopy / phonopy-load commands run as subprocesses (contracts active inside them) through
complete workflows; every file they write is compared, at the printed precision measured from the file, with what the
corresponding library calls return in the harness process for the same inputs. Settings-object monitor: for every row of
the option<->tag table parsed from doc/command-options.md at run time, the Settings reached through the option and through
a configuration file with the documented tag must be identical.
"""

from __future__ import annotations

import json
import os
import re
import shutil
import subprocess
import sys
import tempfile

import numpy as np

PROP = "C18"
LEVEL = "exploration"
VARIANTS = ("omp",)
CASE_TIMEOUT = 1200
RULE = ("kind workflow: crystal x primitive axes x NAC: `phonopy -d` (displaced supercells vs library), `phonopy -f` on synthesised vasprun.xml (FORCE_SETS vs model forces), "
        "`phonopy-load` / `phonopy` run modes mesh, thermal properties, DOS, PDOS, band, q-points, --writefc/--readfc, --nac, each output file vs library results; option route vs "
        "configuration-file route byte-identical outputs (mesh, thermal properties, band, group velocities, mesh symmetry off, DOS, thermal displacements, q-points with dynamical matrices); "
        "final phonopy.yaml reloaded; further phonopy-load run modes vs library: --gv (values inside degenerate groups compared as sets per direction), mesh/band --eigvecs "
        "(projectors onto degenerate subspaces), --td, --tdm, --hdf5, --band-connection (per-q set vs the unconnected path; order where gaps > 1e-3), --writedm, tetrahedron DOS; "
        "kind calcflow: 15 calculators x (NAC from BORN with comment header | NAC inside the yaml): phonopy_params.yaml saved by the library with the calculator recorded only there, "
        "`phonopy-load` and `phonopy -c` q-points with NAC vs the library twin, summary file NAC factor and calculator; "
        "kind settings: every row of the option<->tag table of doc/command-options.md (parsed at run time) x both commands: Settings via option == Settings via conf tag and != default; "
        "non-trivial = output file compared / settings differ from default; distinct = (workflow step) / (table row, command); "
        "additions of rounds 6-8: BAND_CONST_INTERVAL effect from the reciprocal metric; further option effects against the documented library calls (pretend-real, band indices, cutoff, MP_SHIFT, gv-delta-q, cutoff radius, fc-spg-symmetry, xyz/direction PDOS, nac-method in its documented spellings, q-direction); hcp workflow in the quick tier; --modulation: MPOSCAR-NNN / MPOSCAR / MPOSCAR-orig vs run_modulations of the library twin for modes non-degenerate at their q-point (band index base, amplitude, phase, dimension, sum file)")
ASSUMPTIONS = [
    "phonopy-load is always given --fc-calc traditional equivalent behaviour is unavailable: symfc is absent, so force constants come from type-1 datasets with the built-in solver",
    "only VASP calculator outputs are synthesised for `-f`; LAMMPS/QE force files are not synthesised here (their structure I/O is covered by C17)",
    "value catalogue for valued tags is hand written from doc/setting-tags.md examples",
]
MIN_NONTRIVIAL = {"quick": 60, "thorough": 200}

# value catalogue: tag -> (command-line value tokens, conf value string); flags need no entry
VALUES = {
    "DISPLACEMENT_DISTANCE": (["0.03"], "0.03"), "ANIME": (["4", "5", "20", "0.5", "0.5", "0"], "4 5 20 0.5 0.5 0"),
    "BAND": (["0 0 0 1/2 0 0, 1/2 1/2 0 0 0 0"], "0 0 0 1/2 0 0, 1/2 1/2 0 0 0 0"), "BAND_FORMAT": (["hdf5"], "hdf5"), "BAND_LABELS": (["G", "X"], "G X"),
    "BAND_POINTS": (["31"], "31"), "CUTOFF_FREQUENCY": (["0.5"], "0.5"), "CELL_FILENAME": (["POSCAR-x"], "POSCAR-x"), "DIM": (["2 2 3"], "2 2 3"),
    "FREQUENCY_CONVERSION_FACTOR": (["15.0"], "15.0"), "FC_CALCULATOR": (["alm"], "alm"), "FC_CALCULATOR_OPTIONS": (["cutoff = 5"], "cutoff = 5"),
    "FMAX": (["10"], "10"), "FMIN": (["-1"], "-1"), "FPITCH": (["0.1"], "0.1"), "GV_DELTA_Q": (["0.001"], "0.001"), "IRREPS": (["0 0 0 1e-3"], "0 0 0 1e-3"),
    "MAGMOM": (["1 -1"], "1 -1"), "MODULATION": (["2 2 2, 0 0 0 1 1 0"], "2 2 2, 0 0 0 1 1 0"), "MOMENT_ORDER": (["2"], "2"), "MESH_FORMAT": (["hdf5"], "hdf5"),
    "MESH": (["4", "4", "5"], "4 4 5"), "MP": (["4", "4", "5"], "4 4 5"), "NAC_METHOD": (["wang"], "wang"), "PRIMITIVE_AXES": (["0 1/2 1/2 1/2 0 1/2 1/2 1/2 0"], "0 1/2 1/2 1/2 0 1/2 1/2 1/2 0"),
    "PROJECTION_DIRECTION": (["1 0 0"], "1 0 0"), "PDOS": (["1 2, 3"], "1 2, 3"), "Q_DIRECTION": (["1 0 0"], "1 0 0"), "QPOINTS": (["0 0 0 1/2 0 0"], "0 0 0 1/2 0 0"),
    "QPOINTS_FORMAT": (["hdf5"], "hdf5"), "RANDOM_DISPLACEMENTS": (["10"], "10"), "RANDOM_DISPLACEMENT_TEMPERATURE": (["300"], "300"), "READFC_FORMAT": (["hdf5"], "hdf5"),
    "SIGMA": (["0.1"], "0.1"), "TMIN": (["100"], "100"), "TMAX": (["500"], "500"), "TSTEP": (["25"], "25"), "SYMMETRY_TOLERANCE": (["1e-4"], "1e-4"), "WRITEFC_FORMAT": (["hdf5"], "hdf5"),
    "TDISPMAT_CIF": (["300"], "300"),
    "LITTLE_COGROUP": ([], ".TRUE."), "FULL_FORCE_CONSTANTS": ([], ".TRUE."), "GAMMA_CENTER": ([], ".TRUE."), "SHOW_IRREPS": ([], ".TRUE."),
}


# further values for scalar tags: zero (a legitimate value for a frequency or temperature bound, and "falsy" in Python) and a negative one
# (only tags for which zero is a legitimate value; for FPITCH, GV_DELTA_Q, FREQUENCY_CONVERSION_FACTOR, SIGMA, TSTEP zero is meaningless and the
# option route maps it to "not given" while the tag route keeps 0.0: not compared)
ALT_VALUES = {"FMIN": ["0", "0.0"], "FMAX": ["0", "-2.5"], "TMIN": ["0"], "TMAX": ["0"], "TDISPMAT_CIF": ["0"], "RANDOM_DISPLACEMENT_TEMPERATURE": ["0"],
              "CUTOFF_FREQUENCY": ["0", "0.0"], "RANDOM_SEED": ["0"]}

# rows that only take effect inside a run mode: the same run-mode setting is added to BOTH routes
CONTEXT = {"QPOINTS_FORMAT": (["--qpoints", "0 0 0 1/2 0 0"], "QPOINTS = 0 0 0 1/2 0 0"), "BAND_FORMAT": (["--band", "0 0 0 1/2 0 0"], "BAND = 0 0 0 1/2 0 0"),
           "MESH_FORMAT": (["--mesh", "2", "2", "2"], "MESH = 2 2 2"), "BAND_LABELS": (["--band", "0 0 0 1/2 0 0"], "BAND = 0 0 0 1/2 0 0"),
           "BAND_POINTS": (["--band", "0 0 0 1/2 0 0"], "BAND = 0 0 0 1/2 0 0"), "BAND_CONNECTION": (["--band", "0 0 0 1/2 0 0"], "BAND = 0 0 0 1/2 0 0")}


CALCS = ["vasp", "qe", "abinit", "wien2k", "elk", "siesta", "crystal", "dftbp", "turbomole", "aims", "castep", "fleur", "abacus", "lammps", "pwmat"]  # cp2k: phonopy defines no NAC factor for it
ROUTE_FILES = ("mesh.yaml", "thermal_properties.yaml", "band.yaml", "total_dos.dat", "thermal_displacements.yaml", "qpoints.yaml")


def gen_cases(tier, seed):
    rng = np.random.default_rng([seed, 18])
    cases = [{"kind": "settings", "command": "phonopy"}, {"kind": "settings", "command": "phonopy-load"}]
    wf = [("rocksalt", "F", True), ("zincblende", "F", False), ("cscl", "P", True), ("tric2", "P", False), ("rutile", "P", False), ("hcp", "P", False), ("afm_cr", "P", False), ("wurtzite", "P", True)]
    if tier == "quick":
        wf = wf[:6]  # (hcp: a primitive lattice matrix that is not symmetric - row/column mix-ups of the reciprocal basis show)
    for name, pa, nac in wf:
        cases.append({"kind": "workflow", "crystal": {"name": name}, "pa": pa, "nac": nac, "seed": int(rng.integers(10 ** 6)), "_cost": 50})
    # calculator known only from the yaml file that is read (no --qe style option): units, NAC factor from BORN, summary file
    calcs = list(CALCS)
    rng.shuffle(calcs)
    for i, calc in enumerate(calcs if tier == "thorough" else calcs[:6]):
        cases.append({"kind": "calcflow", "calculator": calc, "crystal": {"name": ["rocksalt", "zincblende", "cscl", "wurtzite"][i % 4]}, "nac_in_yaml": bool(i % 3 == 2),
                      "seed": int(rng.integers(10 ** 6)), "_cost": 10})
    return cases


def parse_table(repo):
    txt = open(os.path.join(repo, "doc", "command-options.md")).read()
    part = txt.split("Some of command-line options are equivalent to respective setting tags:")[1].split("When both of equivalent")[0]
    rows = []
    for item in re.split(r"\n- ", "\n" + part.strip()):
        item = " ".join(item.split())
        m = re.match(r"((?:`[^`]+`,?\s*)+)\((`[^`]+`(?: or `[^`]+`)?)\)", item)
        if not m:
            continue
        opts = re.findall(r"`([^`]+)`", m.group(1))
        tags = re.findall(r"`([^`]+)`", m.group(2))
        rows.append({"options": opts, "tags": tags})
    return rows


def settings_dict(s):
    d = dict(vars(s).get("_v", {}))
    return d


def same(a, b):
    if isinstance(a, np.ndarray) or isinstance(b, np.ndarray):
        try:
            return np.array(a).shape == np.array(b).shape and np.allclose(np.array(a, dtype=float), np.array(b, dtype=float), rtol=0, atol=0)
        except Exception:
            return repr(a) == repr(b)
    if isinstance(a, (list, tuple)) and isinstance(b, (list, tuple)):
        return len(a) == len(b) and all(same(x, y) for x, y in zip(a, b))
    if isinstance(a, dict) and isinstance(b, dict):
        return a.keys() == b.keys() and all(same(a[k], b[k]) for k in a)
    if isinstance(a, str) and isinstance(b, str):
        return a.lower() == b.lower()  # string settings (formats, calculators) are lower-cased by their consumers
    return a == b


def run_cli(cmd, args, cwd, env):
    mod = {"phonopy": "phonopy.scripts.phonopy", "phonopy-load": "phonopy.scripts.phonopy_load"}[cmd]
    code = "import sys; from %s import run; sys.argv=%r; run()" % (mod, [cmd] + list(args))
    p = subprocess.run([sys.executable, "-c", code], cwd=cwd, env=env, capture_output=True, text=True, timeout=600)
    return p


def decimals_in(text, key=None):
    d = None
    for line in text.splitlines():
        if key is not None and key not in line:
            continue
        if line.lstrip().startswith("#"):
            continue
        for m in re.findall(r"-?\d+\.(\d+)", line.split(key, 1)[1] if key else line):
            d = len(m) if d is None else min(d, len(m))
    return 8 if d is None else d


def vasprun(path, cell, forces):
    L = np.array(cell.cell)
    xs = np.array(cell.scaled_positions)
    syms = list(cell.symbols)
    t = ['<?xml version="1.0" encoding="ISO-8859-1"?>', "<modeling>", ' <generator><i name="version" type="string">6.3.0  </i></generator>', ' <atominfo><atoms>%d</atoms><array name="atoms"><set>' % len(syms)]
    t += ["  <rc><c>%s</c><c>1</c></rc>" % s for s in syms]
    t += [" </set></array></atominfo>", ' <calculation>', '  <structure><crystal><varray name="basis">']
    t += ["   <v> %.12f %.12f %.12f </v>" % tuple(v) for v in L]
    t += ['  </varray></crystal><varray name="positions">']
    t += ["   <v> %.16f %.16f %.16f </v>" % tuple(v) for v in xs]
    t += ['  </varray></structure>', '  <varray name="forces">']
    t += ["   <v> %.12f %.12f %.12f </v>" % tuple(v) for v in forces]
    t += ['  </varray>', '  <energy><i name="e_fr_energy"> -10.0 </i><i name="e_wo_entrp"> -10.0 </i><i name="e_0_energy"> -10.0 </i></energy>', " </calculation>", "</modeling>"]
    open(path, "w").write("\n".join(t))


def run_case(c):
    from vlib import runner

    viol, obs, keys = [], {}, []

    def bad(kind, msg, **kw):
        if len(viol) < 12:
            viol.append(dict(kind=kind, msg=msg, **kw))

    repo = os.environ.get("VERIF_REPO", "/repo")
    if c["kind"] == "settings":
        from phonopy.cui.phonopy_argparse import get_parser
        from phonopy.cui.settings import PhonopyConfParser

        ctrl = {"phonopy": dict(fc_symmetry=False, is_nac=False, load_phonopy_yaml=False), "phonopy-load": dict(fc_symmetry=True, is_nac=True, load_phonopy_yaml=True)}[c["command"]]
        rows = parse_table(repo)
        obs["table_rows"] = len(rows)
        tmp = tempfile.mkdtemp(prefix="c18s_", dir=os.getcwd())
        try:
            def via_args(argv):
                parser, _ = get_parser(**ctrl)
                args = parser.parse_args(argv)
                return settings_dict(PhonopyConfParser(args=args, default_settings=ctrl if c["command"] == "phonopy-load" else None).settings)

            def via_conf(text):
                parser, _ = get_parser(**ctrl)
                args = parser.parse_args([])
                fn = os.path.join(tmp, "x.conf")
                open(fn, "w").write(text + "\n")
                return settings_dict(PhonopyConfParser(filename=fn, args=args, default_settings=ctrl if c["command"] == "phonopy-load" else None).settings)

            default = via_args([])
            for row in rows:
                for tag_entry in row["tags"]:
                    if "=" in tag_entry:
                        tag, tval = [x.strip() for x in tag_entry.split("=", 1)]
                        cli_val = []
                    else:
                        tag = tag_entry.strip()
                        if tag not in VALUES:
                            obs.setdefault("rows_without_catalogue_value", []).append(tag)
                            continue
                        cli_val, tval = VALUES[tag]
                    ctx_cli, ctx_conf = CONTEXT.get(tag, ([], ""))
                    if "=" in tag_entry and tval.upper() in (".TRUE.", ".FALSE.") and tag == "TDISPMAT_CIF":
                        cli_val, tval = VALUES["TDISPMAT_CIF"]
                    variants = [(cli_val, tval, "")] + ([([v_], v_, " (value %s)" % v_) for v_ in ALT_VALUES.get(tag, [])] if "=" not in tag_entry else [])
                    for opt, (cli_val, tval, vlabel) in [(o_, v_) for o_ in row["options"] for v_ in variants]:
                        label = "%s <-> %s%s" % (opt, tag, vlabel)
                        try:
                            a = via_args(ctx_cli + [opt] + list(cli_val))
                        except SystemExit:
                            obs.setdefault("options_not_accepted_by_command", []).append("%s (%s)" % (opt, c["command"]))
                            continue
                        except Exception as e:
                            bad("settings_option_error", "%s: option route raised %r" % (label, e), row=label, command=c["command"])
                            continue
                        try:
                            b = via_conf((ctx_conf + "\n" if ctx_conf else "") + "%s = %s" % (tag, tval))
                        except Exception as e:
                            bad("settings_tag_error", "%s: configuration-file route raised %r" % (label, e), row=label, command=c["command"])
                            continue
                        obs["rows_compared"] = obs.get("rows_compared", 0) + 1
                        diff = [k for k in set(a) | set(b) if not same(a.get(k), b.get(k))]
                        if diff:
                            k0 = sorted(diff)[0]
                            bad("option_tag_mismatch", "%s: Settings differ in %s: option -> %r, tag -> %r" % (label, sorted(diff), a.get(k0), b.get(k0)), row=label, command=c["command"], keys=sorted(diff))
                        changed = [k for k in set(a) | set(default) if not same(a.get(k), default.get(k))]
                        if changed:
                            keys.append("set|%s|%s" % (c["command"], label))
                        elif not vlabel:
                            obs.setdefault("rows_equal_to_default", []).append(label)
                        if vlabel:
                            obs["alt_values_compared"] = obs.get("alt_values_compared", 0) + 1
        finally:
            shutil.rmtree(tmp, ignore_errors=True)
        return {"viol": viol, "nontrivial": bool(keys), "keys": keys, "obs": obs, "evals": obs.get("rows_compared", 0),
                "sample": {"kind": "settings", "command": c["command"], "table_rows": len(rows), "first_rows": rows[:3]}}

    if c["kind"] == "calcflow":
        import phonopy
        import yaml
        from phonopy.file_IO import write_BORN
        from phonopy.interface.calculator import get_default_physical_units
        from vlib.gen import crystals, models, nac as nacgen, setup

        calc = c["calculator"]
        units = get_default_physical_units(calc)
        env = runner.worker_env("omp")
        tmp = tempfile.mkdtemp(prefix="c18c_", dir=os.getcwd())
        rng = np.random.default_rng(c["seed"])
        feat = dict(calculator=calc, crystal=c["crystal"]["name"], nac_in_yaml=c["nac_in_yaml"])
        n_files = 0
        cwd = os.getcwd()
        try:
            ph, cd = setup.build_phonopy({"crystal": c["crystal"], "smat": np.diag([2, 2, 2]).tolist() if crystals.natoms(c["crystal"]["name"]) <= 2 else np.diag([2, 2, 1]).tolist()},
                                        factor=units["factor"], calculator=calc)
            if cd["pmat"] != "P":
                ph, cd = setup.build_phonopy({"crystal": c["crystal"], "smat": np.diag([2, 2, 2]).tolist(), "pmat": cd["pmat"]}, factor=units["factor"], calculator=calc)
            sc = ph.supercell
            fcm = models.pair_fc(sc.cell, sc.scaled_positions, sc.symbols, cutoff=4.6)
            ph.generate_displacements(distance=0.03)
            ph.forces = setup.harmonic_forces_type1(ph, fcm)
            nacp = nacgen.random_nac(ph, rng, method="gonze")
            if c["nac_in_yaml"]:
                p_ = dict(nacp)
                p_["factor"] = units["nac_factor"]
                ph.nac_params = p_
            os.chdir(tmp)
            ph.save("phonopy_params.yaml", settings={"force_sets": True, "displacements": True, "force_constants": False})
            if not c["nac_in_yaml"]:
                write_BORN(ph.primitive, nacp["born"], nacp["dielectric"], filename="BORN")  # comment header: no explicit factor, the calculator's default applies
            os.chdir(cwd)
            if ("calculator: %s" % calc) not in open(os.path.join(tmp, "phonopy_params.yaml")).read() and calc != "vasp":
                return {"error": "harness: calculator not recorded in the yaml"}

            def twin():
                os.chdir(tmp)
                try:
                    return phonopy.load("phonopy_params.yaml", is_nac=True, born_filename=(None if c["nac_in_yaml"] else "BORN"), symmetrize_fc=True, log_level=0)
                finally:
                    os.chdir(cwd)

            tw = twin()
            want_factor = units["nac_factor"]
            if abs(tw.nac_params["factor"] - want_factor) > (1e-6 if c["nac_in_yaml"] else 1e-12) * abs(want_factor):  # the yaml prints the factor with 6 decimals
                return {"error": "harness: library twin does not use the calculator's NAC factor"}
            qarg = "0 0 0 0.1 0.2 0.3 1/2 0 0"
            qs = [[0, 0, 0], [0.1, 0.2, 0.3], [0.5, 0, 0]]
            tw.run_qpoints(qs, nac_q_direction=[1, 0, 0])
            want = np.array(tw.get_qpoints_dict()["frequencies"])
            twn = phonopy.load(os.path.join(tmp, "phonopy_params.yaml"), is_nac=False, symmetrize_fc=True, log_level=0)
            twn.run_qpoints(qs)
            nac_matters = bool(np.abs(np.array(twn.get_qpoints_dict()["frequencies"]) - want).max() > 1e-6 * max(np.abs(want).max(), 1e-12))
            for cmd, args in (("phonopy-load", ["phonopy_params.yaml", "--fc-calc", "traditional", "--qpoints", qarg, "--q-direction", "1 0 0"]),
                              ("phonopy", ["-c", "phonopy_params.yaml", "--fc-symmetry", "--nac", "--qpoints", qarg, "--q-direction", "1 0 0"])):
                for fn in ("qpoints.yaml", "phonopy.yaml"):
                    if os.path.exists(os.path.join(tmp, fn)):
                        os.remove(os.path.join(tmp, fn))
                p = run_cli(cmd, args, tmp, env)
                obs["cli_runs"] = obs.get("cli_runs", 0) + 1
                if p.returncode != 0:
                    bad("cli_failed", "%s %s failed (rc=%d): %s" % (cmd, " ".join(args), p.returncode, (p.stderr or p.stdout)[-400:]), step="calcflow:" + cmd, **feat)
                    continue
                if not os.path.exists(os.path.join(tmp, "qpoints.yaml")):
                    bad("output_missing", "qpoints.yaml not written", step="calcflow:" + cmd, **feat)
                    continue
                y = yaml.safe_load(open(os.path.join(tmp, "qpoints.yaml")))
                got = np.array([[b["frequency"] for b in p_["band"]] for p_ in y["phonon"]], float)
                n_files += 1
                tol = 0.6e-10 + 1e-12 * np.abs(want).max()
                mask = np.abs(want) > 1e-4
                if got.shape != want.shape or (np.abs(got - want)[mask] > tol).any():
                    bad("output_mismatch", "%s (calculator %s known only from the yaml): qpoints.yaml frequencies differ from the library by %.3e" % (
                        cmd, calc, np.abs(got - want)[mask].max() if got.shape == want.shape else np.inf), step="calcflow:" + cmd, file="qpoints.yaml", quantity="frequencies (NAC)", **feat)
                keys.append("calcflow|%s|%s|%s" % (calc, cmd, c["nac_in_yaml"]))
                # the summary file records the calculation that was run
                if os.path.exists(os.path.join(tmp, "phonopy.yaml")):
                    ys = yaml.safe_load(open(os.path.join(tmp, "phonopy.yaml")))
                    n_files += 1
                    f_s = (ys.get("nac") or {}).get("unit_conversion_factor")
                    if f_s is None or abs(f_s - want_factor) > 1e-5 * abs(want_factor):
                        bad("summary_reload", "phonopy.yaml written by %s records NAC unit_conversion_factor %r, the calculator %s uses %.6f" % (cmd, f_s, calc, want_factor), step="summary:" + cmd, **feat)
                    if (ys.get("phonopy") or {}).get("calculator", "vasp") != calc:
                        bad("summary_reload", "phonopy.yaml written by %s records calculator %r, the run used %s" % (cmd, (ys.get("phonopy") or {}).get("calculator"), calc), step="summary:" + cmd, **feat)
            obs["calcflow_nac_matters"] = obs.get("calcflow_nac_matters", 0) + int(nac_matters)
            obs["files_compared"] = n_files
            return {"viol": viol[:12], "nontrivial": bool(keys) and nac_matters, "keys": keys, "obs": obs, "evals": n_files,
                    "sample": {"kind": "calcflow", "calculator": calc, "crystal": c["crystal"], "nac_in_yaml": c["nac_in_yaml"], "nac_factor": want_factor}}
        finally:
            os.chdir(cwd)
            shutil.rmtree(tmp, ignore_errors=True)

    # ------------------------------------------------------------------ workflow
    import phonopy
    import yaml
    from phonopy.file_IO import parse_FORCE_CONSTANTS, parse_FORCE_SETS
    from phonopy.interface.vasp import read_vasp, write_vasp
    from vlib.gen import crystals, models, nac as nacgen, setup

    env = runner.worker_env("omp")
    tmp = tempfile.mkdtemp(prefix="c18w_", dir=os.getcwd())
    env["PHONOPY_VERIF_MONITORS"] = "1"
    env["PHONOPY_VERIF_LOG"] = os.path.join(tmp, "_monitors.jsonl")
    rng = np.random.default_rng(c["seed"])
    n_files = 0
    try:
        cd = crystals.make(**c["crystal"])
        unit = crystals.to_atoms(cd)
        write_vasp(os.path.join(tmp, "POSCAR-unitcell"), unit)
        unit = read_vasp(os.path.join(tmp, "POSCAR-unitcell"))  # what the CLI will see (VASP regroups species)
        mag = cd.get("magmoms")
        dim = ["2", "2", "2"] if len(unit) <= 4 else ["2", "1", "1"]
        pa = c["pa"]
        base_args = ["--dim"] + dim + (["--pa", pa] if pa != "P" else []) + ["-c", "POSCAR-unitcell"]
        if mag is not None:
            base_args += ["--magmom", " ".join(str(m) for m in mag)]
        feat = dict(crystal=c["crystal"]["name"], pa=pa, nac=c["nac"])

        def cli(cmd, args, step):
            p = run_cli(cmd, args, tmp, env)
            obs["cli_runs"] = obs.get("cli_runs", 0) + 1
            if p.returncode != 0:
                bad("cli_failed", "%s %s failed (rc=%d): %s" % (cmd, " ".join(args), p.returncode, (p.stderr or p.stdout)[-400:]), step=step, **feat)
                return None
            return p

        # ---- step 1: displacements
        if cli("phonopy", ["-d"] + base_args, "disp") is None:
            return {"viol": viol, "nontrivial": False, "obs": obs}
        smat = np.diag([int(x) for x in dim])
        if mag is not None:
            from phonopy.structure.atoms import PhonopyAtoms

            unit_l = PhonopyAtoms(cell=unit.cell, scaled_positions=unit.scaled_positions, symbols=unit.symbols, magnetic_moments=mag)
        else:
            unit_l = unit
        ph = phonopy.Phonopy(unit_l, supercell_matrix=smat, primitive_matrix=pa if pa != "P" else None)
        ph.generate_displacements()
        lib_cells = ph.supercells_with_displacements
        files = sorted(f for f in os.listdir(tmp) if re.match(r"POSCAR-\d+$", f))
        if len(files) != len(lib_cells):
            bad("disp_count", "CLI wrote %d displaced supercells, library generates %d" % (len(files), len(lib_cells)), step="disp", **feat)
        for fn, lc in zip(files, lib_cells):
            cc = read_vasp(os.path.join(tmp, fn))
            n_files += 1
            d = np.array(cc.scaled_positions) - np.array(lc.scaled_positions)
            d -= np.rint(d)
            if list(cc.symbols) != list(lc.symbols) or np.abs(d).max() > 1e-15 or np.abs(np.array(cc.cell) - np.array(lc.cell)).max() > 1e-14:
                bad("disp_file", "%s differs from the library's displaced supercell (max position diff %.3e)" % (fn, np.abs(d).max()), step="disp", file=fn, **feat)
        keys.append("wf|%s|disp" % c["crystal"]["name"])
        # ---- step 2: forces
        sc = ph.supercell
        fcm = models.pair_fc(sc.cell, sc.scaled_positions, sc.symbols, cutoff=4.6)
        F = setup.harmonic_forces_type1(ph, fcm)
        # numerical noise on the forces (as any real calculator output has): symmetrisation / cutoff of the force constants is then not a no-op and
        # the order in which the command applies and writes them matters
        F = F + 2e-4 * rng.standard_normal(F.shape)
        vfiles = []
        for i, fn in enumerate(files):
            vasprun(os.path.join(tmp, "vasprun-%03d.xml" % (i + 1)), read_vasp(os.path.join(tmp, fn)), F[i])
            vfiles.append("vasprun-%03d.xml" % (i + 1))
        # ---- step 2a: --fz (residual forces of the perfect supercell subtracted): FORCE_SETS must hold F_i - F_0
        if os.path.exists(os.path.join(tmp, "SPOSCAR")):
            R0 = 0.05 * rng.standard_normal((len(sc), 3))
            R0 -= R0.mean(axis=0)
            vasprun(os.path.join(tmp, "vasprun-000.xml"), read_vasp(os.path.join(tmp, "SPOSCAR")), R0)
            rfiles = []
            for i, fn in enumerate(files):
                vasprun(os.path.join(tmp, "vasprun-r%03d.xml" % (i + 1)), read_vasp(os.path.join(tmp, fn)), F[i] + R0)
                rfiles.append("vasprun-r%03d.xml" % (i + 1))
            if cli("phonopy", ["--fz", "vasprun-000.xml"] + rfiles, "forces-fz") is not None and os.path.exists(os.path.join(tmp, "FORCE_SETS")):
                fsz = parse_FORCE_SETS(filename=os.path.join(tmp, "FORCE_SETS"))
                gotz = np.array([d["forces"] for d in fsz["first_atoms"]])
                n_files += 1
                # (both inputs are printed with 12 decimals, the difference with 10)
                if gotz.shape != F.shape or np.abs(gotz - F).max() > 0.6e-10 + 2e-12:
                    bad("force_sets_file", "FORCE_SETS written by `phonopy --fz` differs from (forces - residual forces of the perfect supercell) by %.3e" % (
                        np.abs(gotz - F).max() if gotz.shape == F.shape else np.inf), step="forces-fz", **feat)
                keys.append("wf|%s|forces-fz" % c["crystal"]["name"])
                os.remove(os.path.join(tmp, "FORCE_SETS"))
        if cli("phonopy", ["-f"] + vfiles, "forces") is None:
            return {"viol": viol, "nontrivial": bool(keys), "keys": keys, "obs": obs}
        fs = parse_FORCE_SETS(filename=os.path.join(tmp, "FORCE_SETS"))
        got = np.array([d["forces"] for d in fs["first_atoms"]])
        n_files += 1
        if got.shape != F.shape or np.abs(got - F).max() > 0.6e-10:
            bad("force_sets_file", "FORCE_SETS written by `phonopy -f` differs from the forces in the calculator outputs by %.3e" % (np.abs(got - F).max() if got.shape == F.shape else np.inf), step="forces", **feat)
        keys.append("wf|%s|forces" % c["crystal"]["name"])
        # library twin reading the SAME input files
        if c["nac"]:
            nacp = nacgen.random_nac(ph, rng, method="gonze")
            from phonopy.file_IO import write_BORN

            write_BORN(ph.primitive, nacp["born"], nacp["dielectric"], filename=os.path.join(tmp, "BORN"))

        cur = {"cmd": "phonopy-load"}

        def twin(full=False, nac=False, symmetrize=True):
            """Library side reading the SAME input files as the command: `phonopy` reads POSCAR-unitcell (+--dim/--pa), `phonopy-load` reads
            phonopy_disp.yaml (whose masses are printed with 6 decimals - a different input at the 1e-8 level)."""
            if cur["cmd"] == "phonopy-load" and c["nac"]:
                nac = True  # phonopy-load switches NAC on by default when a BORN file is found (documented); `phonopy` needs --nac
            cwd = os.getcwd()
            os.chdir(tmp)
            try:
                kw = dict(force_sets_filename="FORCE_SETS", is_nac=nac, born_filename=("BORN" if nac else None), is_compact_fc=not full, symmetrize_fc=symmetrize, log_level=0)
                if cur["cmd"] == "phonopy-load":
                    return phonopy.load("phonopy_disp.yaml", **kw)
                return phonopy.load(unitcell=unit_l, supercell_matrix=smat, primitive_matrix=(pa if pa != "P" else np.eye(3)), **kw)
            finally:
                os.chdir(cwd)

        def load_yaml(fn):
            return yaml.safe_load(open(os.path.join(tmp, fn)))

        def cmp_arr(name, got, want, dec, step, fn):
            nonlocal n_files
            got, want = np.array(got, float), np.array(want, float)
            tol = 0.5000001 * 10.0 ** (-dec) + 8e-16 * max(np.abs(want).max(), 1.0)
            if got.shape != want.shape:
                bad("output_shape", "%s: %s has shape %s, library %s" % (fn, name, got.shape, want.shape), step=step, file=fn, **feat)
                return
            # acoustic modes at Gamma: frequencies are sqrt-amplified noise: compare squared values there
            e = np.abs(got - want)
            mask = np.abs(want) > 1e-4
            if (e[mask] > tol).any() or (np.abs(np.sign(got[~mask]) * got[~mask] ** 2 - np.sign(want[~mask]) * want[~mask] ** 2) > 1e-7).any():
                bad("output_mismatch", "%s: %s differs from the library by %.3e (printed decimals %d)" % (fn, name, e[mask].max() if mask.any() else e.max(), dec), step=step, file=fn, quantity=name, **feat)

        for cmd in ("phonopy-load", "phonopy"):
            cur["cmd"] = cmd
            pre = ["--fc-calc", "traditional"] if cmd == "phonopy-load" else base_args  # symfc (phonopy-load's default solver) is not installed here
            fcsym = [] if cmd == "phonopy-load" else ["--fc-symmetry"]
            # ---- mesh + thermal properties
            args = pre + fcsym + ["--mesh", "3", "3", "3", "-t", "--tmin", "0", "--tmax", "400", "--tstep", "100", "--cutoff-freq", "0.05"]
            for fn in ("mesh.yaml", "thermal_properties.yaml", "phonopy.yaml"):
                if os.path.exists(os.path.join(tmp, fn)):
                    os.remove(os.path.join(tmp, fn))
            if cli(cmd, args, "mesh-tprop:" + cmd) is not None:
                tw = twin()
                tw.run_mesh([3, 3, 3])
                tw.run_thermal_properties(t_min=0, t_max=400, t_step=100, cutoff_frequency=0.05)
                if os.path.exists(os.path.join(tmp, "mesh.yaml")):
                    y = load_yaml("mesh.yaml")
                    txt = open(os.path.join(tmp, "mesh.yaml")).read()
                    md = tw.get_mesh_dict()
                    cmp_arr("frequencies", [[b["frequency"] for b in p_["band"]] for p_ in y["phonon"]], md["frequencies"], decimals_in(txt, "frequency:"), "mesh:" + cmd, "mesh.yaml")
                    if [p_["weight"] for p_ in y["phonon"]] != list(np.array(md["weights"])):
                        bad("output_mismatch", "mesh.yaml weights differ from the library", step="mesh:" + cmd, file="mesh.yaml", quantity="weights", **feat)
                    n_files += 1
                else:
                    bad("output_missing", "mesh.yaml not written", step="mesh:" + cmd, **feat)
                if os.path.exists(os.path.join(tmp, "thermal_properties.yaml")):
                    y = load_yaml("thermal_properties.yaml")
                    txt = open(os.path.join(tmp, "thermal_properties.yaml")).read()
                    tp = tw.get_thermal_properties_dict()
                    for k, kk in (("free_energy", "free_energy"), ("entropy", "entropy"), ("heat_capacity", "heat_capacity")):
                        cmp_arr(k, [t_[k] for t_ in y["thermal_properties"]], tp[kk], decimals_in(txt, k + ":"), "tprop:" + cmd, "thermal_properties.yaml")
                    n_files += 1
                else:
                    bad("output_missing", "thermal_properties.yaml not written", step="tprop:" + cmd, **feat)
                keys.append("wf|%s|mesh-tprop|%s" % (c["crystal"]["name"], cmd))
                # final phonopy.yaml reloads to the calculation that was run
                if os.path.exists(os.path.join(tmp, "phonopy.yaml")):
                    cwd = os.getcwd()
                    os.chdir(tmp)
                    try:
                        os.rename("FORCE_SETS", "FORCE_SETS.bak")
                        rl = phonopy.load("phonopy.yaml", is_nac=False, log_level=0)
                    finally:
                        if os.path.exists("FORCE_SETS.bak"):
                            os.rename("FORCE_SETS.bak", "FORCE_SETS")
                        os.chdir(cwd)
                    n_files += 1
                    if not np.array_equal(np.array(rl.supercell_matrix), np.array(tw.supercell_matrix)) or len(rl.primitive) != len(tw.primitive):
                        bad("summary_reload", "phonopy.yaml written by %s reloads to a different cell setting" % cmd, step="reload:" + cmd, **feat)
                    keys.append("wf|%s|reload|%s" % (c["crystal"]["name"], cmd))
            # ---- DOS / PDOS with smearing
            args = pre + fcsym + ["--mesh", "3", "3", "3", "--dos", "--sigma", "0.3", "--fmin", "-1", "--fmax", "12", "--fpitch", "0.25", "--nowritemesh"]
            if cli(cmd, args, "dos:" + cmd) is not None and os.path.exists(os.path.join(tmp, "total_dos.dat")):
                tw = twin()
                tw.run_mesh([3, 3, 3])
                tw.run_total_dos(sigma=0.3, freq_min=-1, freq_max=12, freq_pitch=0.25, use_tetrahedron_method=False)
                dd = tw.get_total_dos_dict()
                arr = np.loadtxt(os.path.join(tmp, "total_dos.dat"))
                cmp_arr("total_dos", arr[:, 1], dd["total_dos"], 10, "dos:" + cmd, "total_dos.dat")
                cmp_arr("frequency_points", arr[:, 0], dd["frequency_points"], 10, "dos:" + cmd, "total_dos.dat")
                n_files += 1
                keys.append("wf|%s|dos|%s" % (c["crystal"]["name"], cmd))
            args = pre + fcsym + ["--mesh", "3", "3", "3", "--pdos", "1, 2", "--fmin", "-1", "--fmax", "12", "--fpitch", "0.25", "--nowritemesh"]
            if len(ph.primitive) >= 2 and cli(cmd, args, "pdos:" + cmd) is not None and os.path.exists(os.path.join(tmp, "projected_dos.dat")):
                tw = twin()
                tw.run_mesh([3, 3, 3], with_eigenvectors=True, is_mesh_symmetry=False)
                tw.run_projected_dos(freq_min=-1, freq_max=12, freq_pitch=0.25)
                pd = tw.get_projected_dos_dict()
                arr = np.loadtxt(os.path.join(tmp, "projected_dos.dat"))
                want = np.array(pd["projected_dos"])
                if arr.shape[1] - 1 == want.shape[0]:
                    cmp_arr("projected_dos", arr[:, 1:].T, want, 10, "pdos:" + cmd, "projected_dos.dat")
                else:
                    cmp_arr("projected_dos(selected atoms 1, 2)", arr[:, 1:].T, want[[0, 1]], 10, "pdos:" + cmd, "projected_dos.dat")
                n_files += 1
                keys.append("wf|%s|pdos|%s" % (c["crystal"]["name"], cmd))
            # ---- band and q-points
            args = pre + fcsym + ["--band", "0 0 0 1/2 0 0, 1/2 0 0 1/2 1/2 0", "--band-points", "7"]
            if cli(cmd, args, "band:" + cmd) is not None and os.path.exists(os.path.join(tmp, "band.yaml")):
                tw = twin()
                from phonopy.phonon.band_structure import get_band_qpoints

                bands = get_band_qpoints([np.array([[0, 0, 0], [0.5, 0, 0]]), np.array([[0.5, 0, 0], [0.5, 0.5, 0]])], npoints=7)
                tw.run_band_structure(bands)
                bd = tw.get_band_structure_dict()
                y = load_yaml("band.yaml")
                txt = open(os.path.join(tmp, "band.yaml")).read()
                cmp_arr("frequencies", [[b["frequency"] for b in p_["band"]] for p_ in y["phonon"]], np.vstack(bd["frequencies"]), decimals_in(txt, "frequency:"), "band:" + cmd, "band.yaml")
                cmp_arr("q-positions", [p_["q-position"] for p_ in y["phonon"]], np.vstack(bd["qpoints"]), 7, "band:" + cmd, "band.yaml")
                n_files += 1
                keys.append("wf|%s|band|%s" % (c["crystal"]["name"], cmd))
            args = pre + fcsym + ["--qpoints", "0.1 0.2 0.3 1/2 0 0", "--eigvecs"]
            if cli(cmd, args, "qpoints:" + cmd) is not None and os.path.exists(os.path.join(tmp, "qpoints.yaml")):
                tw = twin()
                tw.run_qpoints([[0.1, 0.2, 0.3], [0.5, 0, 0]], with_eigenvectors=True)
                qd = tw.get_qpoints_dict()
                y = load_yaml("qpoints.yaml")
                txt = open(os.path.join(tmp, "qpoints.yaml")).read()
                cmp_arr("frequencies", [[b["frequency"] for b in p_["band"]] for p_ in y["phonon"]], qd["frequencies"], decimals_in(txt, "frequency:"), "qpoints:" + cmd, "qpoints.yaml")
                n_files += 1
                keys.append("wf|%s|qpoints|%s" % (c["crystal"]["name"], cmd))
            # ---- write / read force constants
            for fn in ("FORCE_CONSTANTS",):
                if os.path.exists(os.path.join(tmp, fn)):
                    os.remove(os.path.join(tmp, fn))
            args = pre + fcsym + ["--writefc", "--full-fc"]
            if cli(cmd, args, "writefc:" + cmd) is not None and os.path.exists(os.path.join(tmp, "FORCE_CONSTANTS")):
                tw = twin(full=True)
                fcf = parse_FORCE_CONSTANTS(filename=os.path.join(tmp, "FORCE_CONSTANTS"))
                cmp_arr("force_constants", fcf, tw.force_constants, 15, "writefc:" + cmd, "FORCE_CONSTANTS")
                n_files += 1
                keys.append("wf|%s|writefc|%s" % (c["crystal"]["name"], cmd))
                # read them back through the CLI and compare a mesh
                args = pre + ["--readfc", "--mesh", "2", "2", "2"]
                if os.path.exists(os.path.join(tmp, "mesh.yaml")):
                    os.remove(os.path.join(tmp, "mesh.yaml"))
                if cli(cmd, args, "readfc:" + cmd) is not None and os.path.exists(os.path.join(tmp, "mesh.yaml")):
                    tw.run_mesh([2, 2, 2])
                    y = load_yaml("mesh.yaml")
                    txt = open(os.path.join(tmp, "mesh.yaml")).read()
                    cmp_arr("frequencies", [[b["frequency"] for b in p_["band"]] for p_ in y["phonon"]], tw.get_mesh_dict()["frequencies"], decimals_in(txt, "frequency:"), "readfc:" + cmd, "mesh.yaml")
                    n_files += 1
                    keys.append("wf|%s|readfc|%s" % (c["crystal"]["name"], cmd))
                os.remove(os.path.join(tmp, "FORCE_CONSTANTS"))
            # ---- NAC
            if c["nac"]:
                args = pre + fcsym + ["--qpoints", "0.1 0.2 0.3 0 0 0"] + (["--nac"] if cmd == "phonopy" else []) + ["--q-direction", "1 0 0"]
                if cli(cmd, args, "nac:" + cmd) is not None and os.path.exists(os.path.join(tmp, "qpoints.yaml")):
                    tw = twin(nac=True)
                    tw.run_qpoints([[0.1, 0.2, 0.3], [0, 0, 0]], nac_q_direction=[1, 0, 0])
                    y = load_yaml("qpoints.yaml")
                    txt = open(os.path.join(tmp, "qpoints.yaml")).read()
                    cmp_arr("frequencies (NAC)", [[b["frequency"] for b in p_["band"]] for p_ in y["phonon"]], tw.get_qpoints_dict()["frequencies"], decimals_in(txt, "frequency:"), "nac:" + cmd, "qpoints.yaml")
                    n_files += 1
                    keys.append("wf|%s|nac|%s" % (c["crystal"]["name"], cmd))
        # ---- custom masses (--mass option / MASS tag): outputs vs the library with the masses set; the summary file must reload to that calculation
        if mag is None:
            mlist = [float(np.round(m_ * (1.3 + 0.11 * i_), 6)) for i_, m_ in enumerate(np.array(ph.primitive.masses))]
            for cmd, route in (("phonopy-load", "option"), ("phonopy", "option"), ("phonopy-load", "tag")):
                cur["cmd"] = cmd
                pre_ = ["--fc-calc", "traditional"] if cmd == "phonopy-load" else base_args + ["--fc-symmetry"]
                for fn_ in ("qpoints.yaml", "phonopy.yaml"):
                    if os.path.exists(os.path.join(tmp, fn_)):
                        os.remove(os.path.join(tmp, fn_))
                if route == "option":
                    args = pre_ + ["--mass"] + [str(m_) for m_ in mlist] + ["--qpoints", "0.1 0.2 0.3 1/2 0 0"]
                else:
                    open(os.path.join(tmp, "m.conf"), "w").write("MASS = %s\nQPOINTS = 0.1 0.2 0.3 1/2 0 0\n" % " ".join(str(m_) for m_ in mlist))
                    args = pre_ + ["--config", "m.conf"]
                if cli(cmd, args, "mass-%s:%s" % (route, cmd)) is None or not os.path.exists(os.path.join(tmp, "qpoints.yaml")):
                    continue
                tw = twin()
                tw.masses = mlist
                tw.run_qpoints([[0.1, 0.2, 0.3], [0.5, 0, 0]])
                want_f = np.array(tw.get_qpoints_dict()["frequencies"])
                y = load_yaml("qpoints.yaml")
                txt = open(os.path.join(tmp, "qpoints.yaml")).read()
                cmp_arr("frequencies (custom masses)", [[b["frequency"] for b in p_["band"]] for p_ in y["phonon"]], want_f, decimals_in(txt, "frequency:"), "mass-%s:%s" % (route, cmd), "qpoints.yaml")
                n_files += 1
                keys.append("wf|%s|mass|%s|%s" % (c["crystal"]["name"], cmd, route))
                if os.path.exists(os.path.join(tmp, "phonopy.yaml")):
                    ys = load_yaml("phonopy.yaml")
                    n_files += 1
                    for block, cell_ in (("primitive_cell", tw.primitive), ("unit_cell", tw.unitcell), ("supercell", tw.supercell)):
                        got_m = np.array([p_.get("mass", np.nan) for p_ in ys[block]["points"]], float)
                        if got_m.shape != np.array(cell_.masses).shape or not np.abs(got_m - np.array(cell_.masses)).max() <= 1e-5:
                            bad("summary_reload", "phonopy.yaml written by %s (%s route) with custom masses: %s masses are %s, the run used %s" % (
                                cmd, route, block, np.round(got_m, 4).tolist()[:4], np.round(cell_.masses, 4).tolist()[:4]), step="mass-summary:" + cmd, block=block, **feat)
                            break
        cur["cmd"] = "phonopy-load"
        # ---- further run modes of phonopy-load (group velocities, eigenvectors, thermal displacements, hdf5, band connection, dynamical matrices,
        #      tetrahedron DOS); quantities that are only defined up to a rotation inside a degenerate subspace are compared as such
        cur["cmd"] = "phonopy-load"
        pre = ["--fc-calc", "traditional"]

        def rm(*fns):
            for fn in fns:
                if os.path.exists(os.path.join(tmp, fn)):
                    os.remove(os.path.join(tmp, fn))

        def groups_of(fr):
            g, out = [0], []
            for j in range(1, len(fr)):
                if abs(fr[j] - fr[j - 1]) < 1e-4:
                    g.append(j)
                else:
                    out.append(g)
                    g = [j]
            out.append(g)
            return out

        def yaml_freqs(y):
            return np.array([[b["frequency"] for b in p_["band"]] for p_ in y["phonon"]], float)

        def yaml_eigvecs(y):
            ev = []
            for p_ in y["phonon"]:
                cols = []
                for b in p_["band"]:
                    v = np.array(b["eigenvector"], float)  # (natom, 3, 2)
                    cols.append((v[..., 0] + 1j * v[..., 1]).ravel())
                ev.append(np.array(cols).T)
            return np.array(ev)

        def cmp_projectors(got_e, want_e, fr, step, fn):
            worst = 0.0
            for iq in range(len(fr)):
                for g in groups_of(fr[iq]):
                    pg = got_e[iq][:, g] @ got_e[iq][:, g].conj().T
                    pw = want_e[iq][:, g] @ want_e[iq][:, g].conj().T
                    worst = max(worst, float(np.abs(pg - pw).max()))
            obs["eigenvector_projectors_compared"] = obs.get("eigenvector_projectors_compared", 0) + 1
            if worst > 1e-9:
                bad("output_mismatch", "%s: eigenvectors span different (degenerate-)subspaces than the library's, projector difference %.3e" % (fn, worst), step=step, file=fn, quantity="eigenvectors", **feat)

        rm("mesh.yaml")
        if cli("phonopy-load", pre + ["--mesh", "3", "3", "3", "--gv"], "gv") is not None and os.path.exists(os.path.join(tmp, "mesh.yaml")):
            tw = twin()
            tw.run_mesh([3, 3, 3], with_group_velocities=True)
            md = tw.get_mesh_dict()
            y = load_yaml("mesh.yaml")
            txt = open(os.path.join(tmp, "mesh.yaml")).read()
            fr = yaml_freqs(y)
            cmp_arr("frequencies", fr, md["frequencies"], decimals_in(txt, "frequency:"), "gv", "mesh.yaml")
            try:
                gv = np.array([[b["group_velocity"] for b in p_["band"]] for p_ in y["phonon"]], float)
            except KeyError:
                gv = None
                bad("output_missing", "mesh.yaml written with --gv has no group_velocity entries", step="gv", file="mesh.yaml", **feat)
            if gv is not None and gv.shape == np.array(md["group_velocities"]).shape:
                want = np.array(md["group_velocities"], float).copy()
                for iq in range(len(fr)):
                    for g in groups_of(np.array(md["frequencies"])[iq]):
                        if len(g) > 1:  # only the set of values per Cartesian direction is defined inside a degenerate group
                            gv[iq][g] = np.sort(gv[iq][g], axis=0)
                            want[iq][g] = np.sort(want[iq][g], axis=0)
                cmp_arr("group_velocities", gv, want, decimals_in(txt, "group_velocity:"), "gv", "mesh.yaml")
            elif gv is not None:
                bad("output_shape", "mesh.yaml group velocities have shape %s, library %s" % (gv.shape, np.array(md["group_velocities"]).shape), step="gv", file="mesh.yaml", **feat)
            n_files += 1
            keys.append("wf|%s|gv" % c["crystal"]["name"])
        rm("mesh.yaml")
        if cli("phonopy-load", pre + ["--mesh", "2", "2", "2", "--eigvecs"], "mesh-eigvecs") is not None and os.path.exists(os.path.join(tmp, "mesh.yaml")):
            tw = twin()
            tw.run_mesh([2, 2, 2], with_eigenvectors=True)
            md = tw.get_mesh_dict()
            y = load_yaml("mesh.yaml")
            fr = yaml_freqs(y)
            if fr.shape == np.array(md["frequencies"]).shape:
                cmp_arr("frequencies", fr, md["frequencies"], 10, "mesh-eigvecs", "mesh.yaml")
                cmp_projectors(yaml_eigvecs(y), np.array(md["eigenvectors"]), np.array(md["frequencies"]), "mesh-eigvecs", "mesh.yaml")
            else:
                bad("output_shape", "mesh.yaml (--eigvecs) has %s q-points x bands, library %s" % (fr.shape, np.array(md["frequencies"]).shape), step="mesh-eigvecs", file="mesh.yaml", **feat)
            n_files += 1
            keys.append("wf|%s|mesh-eigvecs" % c["crystal"]["name"])
        rm("thermal_displacements.yaml")
        if cli("phonopy-load", pre + ["--mesh", "3", "3", "3", "--td", "--tmin", "0", "--tmax", "300", "--tstep", "100", "--fmin", "0.1"], "tdisp") is not None and os.path.exists(os.path.join(tmp, "thermal_displacements.yaml")):
            tw = twin()
            tw.run_mesh([3, 3, 3], with_eigenvectors=True, is_mesh_symmetry=False)
            tw.run_thermal_displacements(t_min=0, t_max=300, t_step=100, freq_min=0.1)
            td = tw.get_thermal_displacements_dict()
            y = load_yaml("thermal_displacements.yaml")
            cmp_arr("temperatures", [t_["temperature"] for t_ in y["thermal_displacements"]], td["temperatures"], 7, "tdisp", "thermal_displacements.yaml")
            cmp_arr("thermal_displacements", np.array([t_["displacements"] for t_ in y["thermal_displacements"]], float).reshape(len(y["thermal_displacements"]), -1),
                    np.array(td["thermal_displacements"]).reshape(len(td["temperatures"]), -1), 7, "tdisp", "thermal_displacements.yaml")
            n_files += 1
            keys.append("wf|%s|tdisp" % c["crystal"]["name"])
        rm("thermal_displacement_matrices.yaml")
        if cli("phonopy-load", pre + ["--mesh", "3", "3", "3", "--tdm", "--tmin", "0", "--tmax", "300", "--tstep", "150", "--fmin", "0.1"], "tdispmat") is not None and os.path.exists(os.path.join(tmp, "thermal_displacement_matrices.yaml")):
            tw = twin()
            tw.run_mesh([3, 3, 3], with_eigenvectors=True, is_mesh_symmetry=False)
            tw.run_thermal_displacement_matrices(t_min=0, t_max=300, t_step=150, freq_min=0.1)
            td = tw.get_thermal_displacement_matrices_dict()
            y = load_yaml("thermal_displacement_matrices.yaml")
            m = np.array(td["thermal_displacement_matrices"])
            want = np.stack([m[..., 0, 0], m[..., 1, 1], m[..., 2, 2], m[..., 1, 2], m[..., 0, 2], m[..., 0, 1]], axis=-1).real
            cmp_arr("thermal_displacement_matrices", np.array([t_["displacement_matrices"] for t_ in y["thermal_displacement_matrices"]], float), want, 5, "tdispmat", "thermal_displacement_matrices.yaml")
            n_files += 1
            keys.append("wf|%s|tdispmat" % c["crystal"]["name"])
        # --modulation: MPOSCAR-NNN / MPOSCAR / MPOSCAR-orig vs run_modulations of the library twin (1-based band index of the tag -> 0-based of the API,
        # amplitude, phase in degrees, dimension). Only modes that are non-degenerate at the q-point (gap > 1e-3 THz measured on the twin) are requested,
        # so the displacement pattern is unique up to what the documented phase convention fixes.
        tw = twin()
        picks = []
        for qm in ([0.5, 0.5, 0.0], [0.0, 0.5, 0.0], [0.5, 0.5, 0.5], [0.5, 0.0, 0.5]):
            tw.run_qpoints([qm])
            fr = tw.get_qpoints_dict()["frequencies"][0]
            for b in range(len(fr)):
                if all(abs(fr[b] - fr[b2]) > 1e-3 for b2 in range(len(fr)) if b2 != b) and abs(fr[b]) > 1e-2:
                    picks.append((qm, b))
                    break
            if len(picks) == 2:
                break
        if not picks:
            obs["modulation_skipped_all_degenerate"] = obs.get("modulation_skipped_all_degenerate", 0) + 1
        else:
            amps = [(1.5, 30.0), (0.7, None)][:len(picks)]
            spec = "2 2 2"
            modes = []
            for (qm, b), (amp, phase) in zip(picks, amps):
                spec += ", %s %d %s" % (" ".join("%g" % x for x in qm), b + 1, "%g" % amp) + ("" if phase is None else " %g" % phase)
                modes.append([qm, b, amp, 0.0 if phase is None else phase])  # a phase left out on the command line is documented as 0
            mfiles = ["MPOSCAR-%03d" % (i + 1) for i in range(len(picks))] + ["MPOSCAR", "MPOSCAR-orig"]
            rm("modulation.yaml", *mfiles)
            if cli("phonopy-load", pre + ["--modulation", spec], "modulation") is not None and all(os.path.exists(os.path.join(tmp, f_)) for f_ in mfiles):
                from phonopy.interface.vasp import read_vasp

                tw.run_modulations([2, 2, 2], modes)
                cells = tw.get_modulated_supercells()
                u_tw, sc_tw = tw.get_modulations_and_supercell()
                want = {("MPOSCAR-%03d" % (i + 1)): cells[i] for i in range(len(picks))}
                orig = read_vasp(os.path.join(tmp, "MPOSCAR-orig"))
                moved = 0.0
                for fn_, cell_w in want.items():
                    got = read_vasp(os.path.join(tmp, fn_))
                    if got.symbols != cell_w.symbols or len(got) != len(cell_w):
                        bad("output_mismatch", "%s: species/atom count differ from the library's modulated supercell" % fn_, step="modulation", file=fn_, quantity="symbols", **feat)
                        continue
                    if np.abs(got.cell - cell_w.cell).max() > 1e-10 * max(1.0, np.abs(cell_w.cell).max()):
                        bad("output_mismatch", "%s: lattice differs from the library's modulated supercell by %.3e" % (fn_, np.abs(got.cell - cell_w.cell).max()), step="modulation", file=fn_, quantity="lattice", **feat)
                    d = got.scaled_positions - cell_w.scaled_positions
                    d -= np.rint(d)
                    if np.abs(d).max() > 1e-10:
                        bad("output_mismatch", "%s: atomic positions differ from the library's run_modulations(%s) by %.3e (fractional)" % (fn_, modes, np.abs(d).max()), step="modulation", file=fn_, quantity="positions", **feat)
                    d0 = got.scaled_positions - orig.scaled_positions
                    d0 -= np.rint(d0)
                    moved = max(moved, float(np.abs(d0 @ orig.cell).max()))
                # the file without a number carries the sum of all requested modulations
                got = read_vasp(os.path.join(tmp, "MPOSCAR"))
                d = got.scaled_positions - (sc_tw.scaled_positions + np.sum(u_tw, axis=0).real @ np.linalg.inv(sc_tw.cell))
                d -= np.rint(d)
                if np.abs(d).max() > 1e-10:
                    bad("output_mismatch", "MPOSCAR: positions differ from supercell + sum of the library's modulations by %.3e (fractional)" % np.abs(d).max(), step="modulation", file="MPOSCAR", quantity="positions", **feat)
                if moved > 1e-3:  # a request that displaces nothing decides nothing
                    n_files += 1
                    keys.append("wf|%s|modulation" % c["crystal"]["name"])
                    obs["modulation_files_compared"] = obs.get("modulation_files_compared", 0) + len(want) + 1
        rm("mesh.hdf5")
        if cli("phonopy-load", pre + ["--mesh", "3", "3", "3", "--hdf5"], "mesh-hdf5") is not None and os.path.exists(os.path.join(tmp, "mesh.hdf5")):
            import h5py

            tw = twin()
            tw.run_mesh([3, 3, 3])
            md = tw.get_mesh_dict()
            with h5py.File(os.path.join(tmp, "mesh.hdf5"), "r") as h:
                cmp_arr("frequency", h["frequency"][:], md["frequencies"], 10, "mesh-hdf5", "mesh.hdf5")
                cmp_arr("qpoint", h["qpoint"][:], md["qpoints"], 12, "mesh-hdf5", "mesh.hdf5")
                if list(h["weight"][:]) != list(np.array(md["weights"])):
                    bad("output_mismatch", "mesh.hdf5 weights differ from the library", step="mesh-hdf5", file="mesh.hdf5", quantity="weights", **feat)
            n_files += 1
            keys.append("wf|%s|mesh-hdf5" % c["crystal"]["name"])
        rm("band.yaml")
        if cli("phonopy-load", pre + ["--band", "0.11 0.05 0.02 0.37 0.21 0.13 0.45 0.4 0.05", "--band-points", "9", "--band-connection"], "band-connection") is not None and os.path.exists(os.path.join(tmp, "band.yaml")):
            from phonopy.phonon.band_structure import get_band_qpoints

            tw = twin()
            bands = get_band_qpoints([np.array([[0.11, 0.05, 0.02], [0.37, 0.21, 0.13], [0.45, 0.4, 0.05]])], npoints=9)
            tw.run_band_structure(bands, is_band_connection=True)
            bd = tw.get_band_structure_dict()
            tw2 = twin()
            tw2.run_band_structure(bands)
            plain = np.vstack(tw2.get_band_structure_dict()["frequencies"])
            y = load_yaml("band.yaml")
            fr = yaml_freqs(y)
            want = np.vstack(bd["frequencies"])
            if fr.shape == want.shape:
                # the per-q set of frequencies is only re-ordered (reference: the path without band connection)
                cmp_arr("frequencies (sorted per q, band connection)", np.sort(fr, axis=1), np.sort(plain, axis=1), 10, "band-connection", "band.yaml")
                gaps = np.diff(np.sort(plain, axis=1), axis=1)
                if gaps.size and gaps.min() > 1e-3:  # order itself is comparable only when no crossing/degeneracy makes it round-off dependent
                    cmp_arr("frequencies (band connection order)", fr, want, 10, "band-connection", "band.yaml")
                    obs["band_connection_order_compared"] = obs.get("band_connection_order_compared", 0) + 1
            else:
                bad("output_shape", "band.yaml (band connection) has shape %s, library %s" % (fr.shape, want.shape), step="band-connection", file="band.yaml", **feat)
            n_files += 1
            keys.append("wf|%s|band-connection" % c["crystal"]["name"])
        rm("band.yaml")
        if cli("phonopy-load", pre + ["--band", "0 0 0 1/2 0 0 1/3 1/3 0 0 0 0 0 0 1/2", "--band-points", "21", "--band-const-interval"], "band-const-interval") is not None and os.path.exists(os.path.join(tmp, "band.yaml")):
            # documented rule (BAND_CONST_INTERVAL): the longest segment gets BAND_POINTS points, the others in proportion to their length in
            # reciprocal space (at least two). Lengths from the reciprocal basis b_i = a_j x a_k / V of the primitive cell, computed here
            tw = twin()
            A_ = np.array(tw.primitive.cell)
            V_ = float(np.dot(A_[0], np.cross(A_[1], A_[2])))
            Brec = np.array([np.cross(A_[1], A_[2]), np.cross(A_[2], A_[0]), np.cross(A_[0], A_[1])]) / V_  # rows b_1, b_2, b_3
            ends = np.array([[0, 0, 0], [0.5, 0, 0], [1 / 3, 1 / 3, 0], [0, 0, 0], [0, 0, 0.5]])
            lens = np.array([np.linalg.norm((ends[i + 1] - ends[i]) @ Brec) for i in range(4)])
            raw = lens / lens.max() * 21
            npts = np.maximum(np.rint(raw).astype(int), 2)
            y = load_yaml("band.yaml")
            got_n = [int(v) for v in y.get("segment_nqpoint", [])]
            obs["band_const_interval"] = obs.get("band_const_interval", 0) + 1
            obs["band_const_interval_unequal_segments"] = obs.get("band_const_interval_unequal_segments", 0) + int(len(set(npts.tolist())) > 1)
            obs["band_const_interval_metric_matters"] = obs.get("band_const_interval_metric_matters", 0) + int(
                not np.allclose(lens, [np.linalg.norm((ends[i + 1] - ends[i]) @ Brec.T) for i in range(4)], rtol=1e-6))
            if np.abs(raw - np.floor(raw) - 0.5).min() > 1e-6:  # (no segment sits on a rounding tie)
                if got_n != npts.tolist():
                    bad("output_mismatch", "band.yaml with --band-const-interval has %s q-points per segment; segment lengths %s in reciprocal space with BAND_POINTS=21 give %s" % (
                        got_n, np.round(lens, 5).tolist(), npts.tolist()), step="band-const-interval", file="band.yaml", quantity="segment_nqpoint", **feat)
                else:
                    want_q = np.vstack([ends[i] + np.outer(np.arange(npts[i]) / (npts[i] - 1), ends[i + 1] - ends[i]) for i in range(4)])
                    cmp_arr("q-positions", [p_["q-position"] for p_ in y["phonon"]], want_q, 7, "band-const-interval", "band.yaml")
                    tw.run_band_structure([want_q[sum(npts[:i]):sum(npts[:i + 1])] for i in range(4)])
                    cmp_arr("frequencies", yaml_freqs(y), np.vstack(tw.get_band_structure_dict()["frequencies"]), 10, "band-const-interval", "band.yaml")
            n_files += 1
            keys.append("wf|%s|band-const-interval" % c["crystal"]["name"])
        rm("band.yaml")
        if cli("phonopy-load", pre + ["--band", "0.1 0.2 0.3 1/2 0.1 0", "--band-points", "4", "--eigvecs"], "band-eigvecs") is not None and os.path.exists(os.path.join(tmp, "band.yaml")):
            from phonopy.phonon.band_structure import get_band_qpoints

            tw = twin()
            bands = get_band_qpoints([np.array([[0.1, 0.2, 0.3], [0.5, 0.1, 0]])], npoints=4)
            tw.run_band_structure(bands, with_eigenvectors=True)
            bd = tw.get_band_structure_dict()
            y = load_yaml("band.yaml")
            fr = yaml_freqs(y)
            if fr.shape == np.vstack(bd["frequencies"]).shape:
                cmp_arr("frequencies", fr, np.vstack(bd["frequencies"]), 10, "band-eigvecs", "band.yaml")
                cmp_projectors(yaml_eigvecs(y), np.vstack(bd["eigenvectors"]), np.vstack(bd["frequencies"]), "band-eigvecs", "band.yaml")
            n_files += 1
            keys.append("wf|%s|band-eigvecs" % c["crystal"]["name"])
        # ---- options whose EFFECT had only been compared between the option and the tag route, or not at all (round 6): each against the library call
        #      the documentation names for it
        def tprop_cmp(step, tw_):
            y_ = load_yaml("thermal_properties.yaml")
            txt_ = open(os.path.join(tmp, "thermal_properties.yaml")).read()
            tp_ = tw_.get_thermal_properties_dict()
            cmp_arr("temperatures", [t_["temperature"] for t_ in y_["thermal_properties"]], tp_["temperatures"], 7, step, "thermal_properties.yaml")
            for k_ in ("free_energy", "entropy", "heat_capacity"):
                cmp_arr(k_, [t_[k_] for t_ in y_["thermal_properties"]], tp_[k_], decimals_in(txt_, k_ + ":"), step, "thermal_properties.yaml")

        def mesh_cmp(step, tw_, with_gv=False):
            y_ = load_yaml("mesh.yaml")
            txt_ = open(os.path.join(tmp, "mesh.yaml")).read()
            md_ = tw_.get_mesh_dict()
            fr_ = yaml_freqs(y_)
            if fr_.shape != np.array(md_["frequencies"]).shape:
                bad("output_shape", "mesh.yaml has %s q-points x bands, library %s" % (fr_.shape, np.array(md_["frequencies"]).shape), step=step, file="mesh.yaml", **feat)
                return
            cmp_arr("q-positions", [p_["q-position"] for p_ in y_["phonon"]], md_["qpoints"], 7, step, "mesh.yaml")
            if [int(p_["weight"]) for p_ in y_["phonon"]] != [int(w_) for w_ in md_["weights"]]:
                bad("output_mismatch", "mesh.yaml weights differ from the library's", step=step, file="mesh.yaml", quantity="weights", **feat)
            cmp_arr("frequencies", fr_, md_["frequencies"], decimals_in(txt_, "frequency:"), step, "mesh.yaml")
            if with_gv:
                gv_ = np.array([[b["group_velocity"] for b in p_["band"]] for p_ in y_["phonon"]], float)
                want_ = np.array(md_["group_velocities"], float).copy()
                for iq in range(len(fr_)):
                    for g in groups_of(np.array(md_["frequencies"])[iq]):
                        if len(g) > 1:
                            gv_[iq][g] = np.sort(gv_[iq][g], axis=0)
                            want_[iq][g] = np.sort(want_[iq][g], axis=0)
                cmp_arr("group_velocities", gv_, want_, decimals_in(txt_, "group_velocity:"), step, "mesh.yaml")

        def qp_cmp(step, tw_, qs_, **kw_):
            tw_.run_qpoints(qs_, **kw_)
            cmp_arr("frequencies", yaml_freqs(load_yaml("qpoints.yaml")), tw_.get_qpoints_dict()["frequencies"], 10, step, "qpoints.yaml")

        qarg3, qs3 = "0.1 0.2 0.3 1/2 0 0 0.25 0.25 0", [[0.1, 0.2, 0.3], [0.5, 0, 0], [0.25, 0.25, 0]]
        effects = [
            ("tprop-pretend-real", ["--mesh", "3", "3", "3", "-t", "--tmax", "300", "--tstep", "100", "--pretend-real"], "thermal_properties.yaml",
             lambda tw_: (tw_.run_mesh([3, 3, 3]), tw_.run_thermal_properties(t_min=0, t_max=300, t_step=100, pretend_real=True), tprop_cmp("tprop-pretend-real", tw_))),
            ("tprop-band-indices", ["--mesh", "3", "3", "3", "-t", "--tmax", "200", "--tstep", "100", "--bi", "1 2, 3"], "thermal_properties.yaml",
             lambda tw_: (tw_.run_mesh([3, 3, 3]), tw_.run_thermal_properties(t_min=0, t_max=200, t_step=100, band_indices=[[0, 1], [2]]), tprop_cmp("tprop-band-indices", tw_))),
            ("tprop-cutoff", ["--mesh", "3", "3", "3", "-t", "--tmin", "50", "--tmax", "250", "--tstep", "100", "--cutoff-freq", "1.5"], "thermal_properties.yaml",
             lambda tw_: (tw_.run_mesh([3, 3, 3]), tw_.run_thermal_properties(t_min=50, t_max=250, t_step=100, cutoff_frequency=1.5), tprop_cmp("tprop-cutoff", tw_))),
            ("mesh-shift", "MESH = 3 3 2\nMP_SHIFT = 0.5 0.5 0", "mesh.yaml",
             lambda tw_: (tw_.run_mesh([3, 3, 2], shift=[0.5, 0.5, 0]), mesh_cmp("mesh-shift", tw_))),
            ("mesh-gv-delta-q", ["--mesh", "3", "3", "3", "--gv", "--gv-delta-q", "0.01"], "mesh.yaml",
             lambda tw_: (setattr(tw_, "_gv_delta_q", 0.01), tw_.run_mesh([3, 3, 3], with_group_velocities=True), mesh_cmp("mesh-gv-delta-q", tw_, with_gv=True))),
            ("qpoints-cutoff-radius", ["--qpoints", qarg3, "--cutoff-radius", "3.2"], "qpoints.yaml",
             "cutoff_radius"),
            ("qpoints-fc-spg-symmetry", ["--qpoints", qarg3, "--fc-spg-symmetry"], "qpoints.yaml", "fc_spg"),
            ("pdos-xyz", ["--mesh", "3", "3", "3", "--pdos", "1", "--xyz-projection", "--sigma", "0.3", "--fmin", "-1", "--fmax", "12", "--fpitch", "0.5"], "projected_dos.dat", None),
            ("pdos-direction", ["--mesh", "3", "3", "3", "--pdos", "1", "--pd", "1", "1", "0", "--sigma", "0.3", "--fmin", "-1", "--fmax", "12", "--fpitch", "0.5"], "projected_dos.dat", None),
        ]
        if c["nac"]:
            effects.append(("qpoints-nac-method-wang", ["--qpoints", qarg3, "--nac-method", "wang"], "qpoints.yaml", "wang"))
            # the spellings the documentation itself uses (setting-tags: NAC_METHOD = WANG; --help: Wang): the same method
            effects.append(("qpoints-nac-method-Wang", ["--qpoints", qarg3, "--nac-method", "Wang"], "qpoints.yaml", "wang"))
            effects.append(("qpoints-NAC_METHOD-WANG", "QPOINTS = " + qarg3 + "\nNAC_METHOD = WANG", "qpoints.yaml", "wang"))
            effects.append(("qpoints-q-direction", ["--qpoints", "0 0 0", "--q-direction", "1 1 0"], "qpoints.yaml", "qdir"))
        for label, args_, fn_, fun in effects:
            rm(fn_)
            if isinstance(args_, str):  # a tag without an option: through a configuration file
                open(os.path.join(tmp, "e.conf"), "w").write(args_ + "\n")
                args_ = ["--config", "e.conf"]
            if cli("phonopy-load", pre + args_, label) is None or not os.path.exists(os.path.join(tmp, fn_)):
                continue
            obs["option_effects"] = obs.get("option_effects", 0) + 1
            tw = twin()
            try:
                if label.startswith("pdos-"):
                    tw.run_mesh([3, 3, 3], with_eigenvectors=True, is_mesh_symmetry=False)
                    kw_ = {"xyz_projection": True} if label == "pdos-xyz" else {"direction": [1, 1, 0]}
                    tw.run_projected_dos(sigma=0.3, freq_min=-1, freq_max=12, freq_pitch=0.5, use_tetrahedron_method=False, **kw_)
                    want = np.array(tw.get_projected_dos_dict()["projected_dos"])
                    arr = np.loadtxt(os.path.join(tmp, "projected_dos.dat"))
                    if arr.shape[1] - 1 == len(want):  # (the file holds every atom / component; the --pdos selection only groups the plot)
                        cmp_arr("projected_dos (%s)" % label, arr[:, 1:].T, want, 10, label, "projected_dos.dat")
                    else:
                        bad("output_shape", "projected_dos.dat (%s) has %d columns, library %d" % (label, arr.shape[1] - 1, len(want)), step=label, file="projected_dos.dat", **feat)
                elif fun == "cutoff_radius":
                    # documented order of the post-processing: cutoff radius, (space-group symmetrisation,) then the default symmetrisation
                    tw = twin(symmetrize=False)
                    tw.set_force_constants_zero_with_radius(3.2)
                    tw.symmetrize_force_constants()
                    qp_cmp(label, tw, qs3)
                elif fun == "fc_spg":
                    tw = twin(full=True, symmetrize=False)  # (the command switches to the full layout for this option)
                    tw.symmetrize_force_constants_by_space_group(show_drift=False)
                    tw.symmetrize_force_constants()
                    qp_cmp(label, tw, qs3)
                elif fun == "wang":
                    nacp_ = dict(tw.nac_params)
                    nacp_["method"] = "wang"
                    tw.nac_params = nacp_
                    qp_cmp(label, tw, qs3)
                elif fun == "qdir":
                    qp_cmp(label, tw, [[0, 0, 0]], nac_q_direction=[1, 1, 0])
                else:
                    fun(tw)
            except Exception as e_:
                if "harness" in str(e_):
                    raise
                bad("library_twin_raised", "library call for step %s raised %r although the command ran" % (label, e_), step=label, **feat)
            n_files += 1
            keys.append("wf|%s|%s" % (c["crystal"]["name"], label))
        rm("qpoints.yaml")
        if cli("phonopy-load", pre + ["--qpoints", "0.1 0.2 0.3 1/2 0 0 0 0 0", "--writedm"], "writedm") is not None and os.path.exists(os.path.join(tmp, "qpoints.yaml")):
            tw = twin()
            tw.run_qpoints([[0.1, 0.2, 0.3], [0.5, 0, 0], [0, 0, 0]], with_dynamical_matrices=True)
            qd = tw.get_qpoints_dict()
            y = load_yaml("qpoints.yaml")
            try:
                dmy = np.array([p_["dynamical_matrix"] for p_ in y["phonon"]], float)
                dmy = dmy[..., 0::2] + 1j * dmy[..., 1::2]
            except KeyError:
                dmy = None
                bad("output_missing", "qpoints.yaml written with --writedm has no dynamical_matrix", step="writedm", file="qpoints.yaml", **feat)
            if dmy is not None:
                want = np.array(qd["dynamical_matrices"])
                cmp_arr("dynamical_matrix (real)", dmy.real, want.real, 10, "writedm", "qpoints.yaml")
                cmp_arr("dynamical_matrix (imag)", dmy.imag, want.imag, 10, "writedm", "qpoints.yaml")
            n_files += 1
            keys.append("wf|%s|writedm" % c["crystal"]["name"])
        rm("total_dos.dat")
        if cli("phonopy-load", pre + ["--mesh", "3", "3", "3", "--dos", "--fmin", "-1", "--fmax", "12", "--fpitch", "0.25", "--nowritemesh"], "dos-tetrahedron") is not None and os.path.exists(os.path.join(tmp, "total_dos.dat")):
            tw = twin()
            tw.run_mesh([3, 3, 3])
            tw.run_total_dos(freq_min=-1, freq_max=12, freq_pitch=0.25, use_tetrahedron_method=True)
            dd = tw.get_total_dos_dict()
            arr = np.loadtxt(os.path.join(tmp, "total_dos.dat"))
            cmp_arr("total_dos (tetrahedron)", arr[:, 1], dd["total_dos"], 10, "dos-tetrahedron", "total_dos.dat")
            n_files += 1
            keys.append("wf|%s|dos-tetrahedron" % c["crystal"]["name"])
        # ---- option route vs configuration-file route: identical output files
        for label, opts, conf in (("mesh", ["--mesh", "2", "3", "2", "--gc"], "MESH = 2 3 2\nGAMMA_CENTER = .TRUE."),
                                  ("tprop", ["--mesh", "2", "2", "2", "-t", "--tmax", "200", "--tstep", "50"], "MESH = 2 2 2\nTPROP = .TRUE.\nTMAX = 200\nTSTEP = 50"),
                                  ("band", ["--band", "0 0 0 0 1/2 0", "--band-points", "5"], "BAND = 0 0 0 0 1/2 0\nBAND_POINTS = 5"),
                                  ("band-const-interval", ["--band", "0 0 0 1/2 0 0 1/3 1/3 0 0 0 0 0 0 1/2", "--band-points", "21", "--band-const-interval"],
                                   "BAND = 0 0 0 1/2 0 0 1/3 1/3 0 0 0 0 0 0 1/2\nBAND_POINTS = 21\nBAND_CONST_INTERVAL = .TRUE."),
                                  ("gv", ["--mesh", "2", "2", "2", "--gv"], "MESH = 2 2 2\nGROUP_VELOCITY = .TRUE."),
                                  ("nomeshsym", ["--mesh", "2", "2", "3", "--nomeshsym"], "MESH = 2 2 3\nMESH_SYMMETRY = .FALSE."),
                                  ("dos", ["--mesh", "2", "2", "2", "--dos", "--sigma", "0.2", "--fpitch", "0.5"], "MESH = 2 2 2\nDOS = .TRUE.\nSIGMA = 0.2\nFPITCH = 0.5"),
                                  ("tdisp", ["--mesh", "2", "2", "2", "--td", "--tmax", "100", "--tstep", "50", "--fmin", "0.2"], "MESH = 2 2 2\nTDISP = .TRUE.\nTMAX = 100\nTSTEP = 50\nFMIN = 0.2"),
                                  ("qpoints", ["--qpoints", "0.1 0.2 0.3", "--writedm"], "QPOINTS = 0.1 0.2 0.3\nWRITEDM = .TRUE."),
                                  ("dos-fmin0", ["--mesh", "2", "2", "2", "--dos", "--sigma", "0.2", "--fmin", "0", "--fmax", "12", "--fpitch", "0.5"], "MESH = 2 2 2\nDOS = .TRUE.\nSIGMA = 0.2\nFMIN = 0\nFMAX = 12\nFPITCH = 0.5"),
                                  ("tprop-zero", ["--mesh", "2", "2", "2", "-t", "--tmin", "0", "--tmax", "100", "--tstep", "50", "--cutoff-freq", "0"], "MESH = 2 2 2\nTPROP = .TRUE.\nTMIN = 0\nTMAX = 100\nTSTEP = 50\nCUTOFF_FREQUENCY = 0"),
                                  ("tdisp-fmin0", ["--mesh", "2", "2", "2", "--td", "--tmax", "100", "--tstep", "50", "--fmin", "0"], "MESH = 2 2 2\nTDISP = .TRUE.\nTMAX = 100\nTSTEP = 50\nFMIN = 0")):
            outs = {}
            for route in ("option", "conf"):
                for fn in ROUTE_FILES:
                    if os.path.exists(os.path.join(tmp, fn)):
                        os.remove(os.path.join(tmp, fn))
                if route == "option":
                    p = cli("phonopy-load", ["--fc-calc", "traditional"] + opts, "route-option:" + label)
                else:
                    open(os.path.join(tmp, "r.conf"), "w").write(conf + "\n")
                    p = cli("phonopy-load", ["--fc-calc", "traditional", "--config", "r.conf"], "route-conf:" + label)
                if p is None:
                    break
                outs[route] = {fn: open(os.path.join(tmp, fn)).read() for fn in ROUTE_FILES if os.path.exists(os.path.join(tmp, fn))}
            if len(outs) == 2:
                n_files += 1
                keys.append("wf|%s|route|%s" % (c["crystal"]["name"], label))
                if outs["option"].keys() != outs["conf"].keys():
                    bad("route_outputs", "%s: option route wrote %s, configuration-file route wrote %s" % (label, sorted(outs["option"]), sorted(outs["conf"])), step="route:" + label, **feat)
                for fn in outs["option"]:
                    if fn in outs["conf"] and outs["option"][fn] != outs["conf"][fn]:
                        bad("route_outputs", "%s: %s differs between the option route and the configuration-file route" % (label, fn), step="route:" + label, file=fn, **feat)
        # contracts evaluated inside the subprocesses
        mon = os.path.join(tmp, "_monitors.jsonl")
        if os.path.exists(mon):
            for line in open(mon):
                try:
                    rec = json.loads(line)
                except Exception:
                    continue
                for k, v in rec.get("contracts", {}).items():
                    if isinstance(v, int):
                        obs.setdefault("contracts_in_subprocesses", {})[k] = obs.setdefault("contracts_in_subprocesses", {}).get(k, 0) + v
                for v in rec.get("viol", []):
                    v = dict(v)
                    v["in_subprocess"] = True
                    viol.append(v)
        obs["files_compared"] = n_files
        return {"viol": viol[:12], "nontrivial": bool(keys), "keys": keys, "obs": obs, "evals": n_files,
                "sample": {"kind": "workflow", "crystal": c["crystal"], "pa": pa, "nac": c["nac"], "files_compared": n_files, "steps": [k.split("|", 2)[2] for k in keys][:12]}}
    finally:
        shutil.rmtree(tmp, ignore_errors=True)


def summarize(results, obs, tier):
    inc = []
    for k in ("table_rows", "rows_compared", "cli_runs", "files_compared"):
        if obs.get(k, 0) == 0:
            inc.append("%s never exercised" % k)
    if not (obs.get("contracts_in_subprocesses") or {}).get("Supercell.__init__"):
        inc.append("contracts were not evaluated inside the CLI subprocesses")
    return {"options_not_accepted": sorted(set(obs.get("options_not_accepted_by_command", []))), "rows_equal_to_default": sorted(set(obs.get("rows_equal_to_default", []))),
            "rows_without_catalogue_value": sorted(set(obs.get("rows_without_catalogue_value", [])))}, inc
