"""C12 - group velocities and Grueneisen parameters are true derivatives of the spectrum.

Reference-model monitor: central differences of phonopy's own D(q) / nu(q) (two step sizes, error must shrink),
closed-form Grueneisen parameter for uniformly scaling force constants, reduced vs full mesh agreement.
"""

from __future__ import annotations

import numpy as np

PROP = "C12"
LEVEL = "exploration"
VARIANTS = ("omp",)
CASE_TIMEOUT = 1200
RULE = ("kind deriv: zoo crystal x supercell x FC class (symmetric model | arbitrary periodic, not permutation symmetric) x NAC (none|Wang) x full/compact x lang C|Py: "
        "DerivativeOfDynamicalMatrix vs central difference of D(q) in Cartesian q (h=1e-4 and 5e-5), group velocities (analytic and group_velocity_delta_q) vs central "
        "difference of the mode frequency for modes separated by > 1e-3 nu_max, generic and high-symmetry q; "
        "kind grun: three volumes with FC scaled as (V/V0)^(-2g) -> every mode above cutoff has the closed-form value; volume-dependent pair model -> "
        "symmetry-reduced and full mesh give the same weighted sums of per-q symmetric functions of gamma; "
        "non-trivial = non-zero derivative / at least 3 modes above cutoff; distinct = full parameter tuple; "
        "additions of rounds 6-8: q outside the first zone on the usual invariant sets; isotropic-supercell cases keep phonopy's symmetrisation on; force-constant memory layouts; Grueneisen closed form through mesh and band routes x default/explicit strain increment; stale-velocity probe on modes clear of the degeneracy tolerance")
ASSUMPTIONS = [
    "q_cart = L^-1 q_red (no 2 pi); group velocity in THz.Angstrom",
    "finite-difference oracle: error at h/2 must be < 0.35 x error at h, or below 1e-7 of the scale",
]
MIN_NONTRIVIAL = {"quick": 60, "thorough": 400}


def gen_cases(tier, seed):
    from vlib.gen import crystals, setup

    rng = np.random.default_rng([seed, 12])
    cases = []
    names = ["sc", "fcc", "rocksalt", "hcp", "rutile", "tric2", "wurtzite", "mono_p", "ortho_c", "zincblende", "cscl", "diamond", "perovskite", "tric3"]
    for i in range(60 if tier == "quick" else 400):
        name = names[i % len(names)]
        nu = crystals.natoms(name)
        smats = setup.smat_list(max(1, 48 // nu), rng=rng, n_random=1)
        smats = [m for m in smats if setup.det3(m) > 1] or smats
        lang = ["C", "C", "Py"][rng.integers(3)]  # (not tied to the crystal: an index-parity rule once kept the triclinic cells on the Python path only)
        cases.append({"kind": "deriv", "crystal": {"name": name, "order": ["asis", "random"][rng.integers(2)], "order_seed": int(rng.integers(100)),
                                                   "rot_seed": int(rng.integers(100)) if rng.integers(3) == 0 else None},
                      "smat": smats[rng.integers(len(smats))], "pmat": ["P", "centring"][rng.integers(2)], "fcclass": ["sym", "arbitrary"][rng.integers(2)],
                      "_threads": [1, 2, 3, 5, 7, 16][int(rng.integers(6))], "nac": [None, "wang"][rng.integers(2)] if name in crystals.POLAR else None, "full": bool(rng.integers(2)) or lang == "Py", "lang": lang,  # the Python derivative asserts full layout
                      "seed": int(rng.integers(10 ** 6)), "_cost": 3})
        if i % 3 == 2:
            # isotropically multiplied supercell + symmetric model: the only combination in which phonopy's little-group symmetrisation of the velocities is
            # legitimate and therefore left switched on (random supercells almost never produced it: 0 of 60 cases at seed 1)
            n_ = 2 if nu * 8 <= 64 else 1
            cases[-1].update(smat=[[n_, 0, 0], [0, n_, 0], [0, 0, n_]], fcclass="sym")
            if name in crystals.POLAR and rng.integers(3) > 0:
                cases[-1]["nac"] = "wang"
    for i in range(24 if tier == "quick" else 160):
        name = names[i % len(names)]
        cases.append({"kind": "grun", "crystal": {"name": name, "order": "asis"}, "g": float(rng.uniform(0.3, 2.5)), "strain": float(rng.uniform(0.001, 0.03)),
                      "mesh": [int(v) for v in rng.integers(2, 5, 3)], "seed": int(rng.integers(10 ** 6)), "_cost": 4})
    return cases


def run_case(c):
    from vlib.gen import models, nac as nacgen, setup

    viol, obs = [], {}

    def bad(kind, msg, **kw):
        if len(viol) < 8:
            viol.append(dict(kind=kind, msg=msg, **kw))

    if c["kind"] == "deriv":
        from phonopy.harmonic.derivative_dynmat import DerivativeOfDynamicalMatrix

        ph, cd = setup.build_phonopy(dict(c, pmat=None))
        pm = setup.resolve_pmat(cd, c["pmat"])
        if pm != "P":
            ph, cd = setup.build_phonopy(dict(c, pmat=pm))
        sc, pr = ph.supercell, ph.primitive
        rng = np.random.default_rng(c["seed"])
        if c["fcclass"] == "sym":
            fc = models.pair_fc(sc.cell, sc.scaled_positions, sc.symbols, cutoff=rng.uniform(3.5, 6.0))
        else:
            fc = models.random_periodic_fc(sc.cell, sc.scaled_positions, pr.cell, rng, permutation_symmetric=False, asr=True)
        if np.abs(fc).max() < 1e-8:
            return {"skip": "no interaction"}
        p2s = np.array(pr.p2s_map)
        from vlib.gen.layout import ARRAY_KINDS, relayout as _rl

        _frng = np.random.default_rng(c["seed"] + 11)
        fc_held, _fckind = _rl(fc if c["full"] else fc[p2s], _frng, kind=ARRAY_KINDS[int(_frng.integers(len(ARRAY_KINDS)))])  # same numbers, another memory layout
        obs["fclayout_" + _fckind] = 1
        ph.force_constants = fc_held
        if c["nac"]:
            ph.nac_params = nacgen.random_nac(ph, rng, method="wang")
        dm = ph.dynamical_matrix
        L = np.array(pr.cell)
        feat = dict(fcclass=c["fcclass"], nac=c["nac"], lang=c["lang"], full=c["full"], fc_permutation_symmetric=bool(c["fcclass"] == "sym"))
        qs = [rng.uniform(-0.5, 0.5, 3), rng.uniform(-0.5, 0.5, 3), np.array([0.5, 0.0, 0.0]), np.array([0.25, 0.25, 0.0]), np.array([0.1, 0.1, 0.1])]
        # q outside the first zone (band paths routinely leave it, e.g. the fcc U point): D(q) with Wang's term is NOT periodic in q, so folding q
        # anywhere (derivative, little group used to symmetrise velocities) is only legitimate for the periodic part. Templates lie on the usual
        # mirror/rotation-invariant sets of the reduced reciprocal coordinates so that the FOLDED point has a little group the unfolded one may lack
        x_, y_ = rng.uniform(0.05, 0.45, 2)
        tmpl = [[x_, y_, 0.0], [x_, x_, y_], [x_, y_, x_ + y_], [x_, y_, 0.5 * x_], [0.1, 0.2, 0.3]][int(rng.integers(5))]
        G_ = rng.integers(-1, 2, 3)
        if not G_.any():
            G_[int(rng.integers(3))] = 1
        q_out = np.array(tmpl)[rng.permutation(3)] + G_
        ddm = DerivativeOfDynamicalMatrix(dm)
        nontrivial = False

        def D(q):
            dm.run(q)
            return np.array(dm.dynamical_matrix)

        # (floor of the scale: the largest |D| over all requested q - at a q where D itself vanishes, e.g. a chain-like model at an integer component,
        # |D| and |dD| are rounding noise and a scale taken from them alone compares noise with noise: sweep after round 6, seed 2)
        d_floor = max(np.abs(D(q)).max() for q in qs + [q_out])
        for q in qs + [q_out]:
            ddm.run(q, lang=c["lang"])
            dD = np.array(ddm.d_dynamical_matrix)
            scale = max(np.abs(dD).max(), np.abs(D(q)).max(), d_floor)
            if np.abs(dD).max() > 1e-6 * np.abs(D(q)).max():
                nontrivial = True
            for j in range(3):
                errs, fds = [], []
                for h in (1e-4, 5e-5):
                    dq = L @ (np.eye(3)[j] * h)
                    fd = (D(q + dq) - D(q - dq)) / (2 * h)
                    fds.append(fd)
                    errs.append(float(np.abs(fd - dD[j]).max()))
                obs["n_dD"] = obs.get("n_dD", 0) + 1
                # O(h^2) stencil: error(h/2) = |fd(h)-fd(h/2)|/3; accept up to the full difference (3x margin), floor 1e-7 of the scale
                if errs[1] > 1e-7 * scale and errs[1] > float(np.abs(fds[0] - fds[1]).max()):
                    bad("derivative_dynmat", "dD/dq_%d (%s) differs from the central difference of D(q) by %.3e (h) / %.3e (h/2), scale %.3e at q=%s" % (
                        j, c["lang"], errs[0], errs[1], scale, np.round(q, 4).tolist()), direction=j, **feat)
            # Hermiticity of the derivative (it is symmetrised by construction)
            for j in range(3):
                if np.abs(dD[j] - dD[j].conj().T).max() > 1e-12 * max(scale, 1e-300):
                    bad("derivative_not_hermitian", "dD/dq_%d is not Hermitian: %.3e" % (j, np.abs(dD[j] - dD[j].conj().T).max()), direction=j, **feat)
        # the same derivative from a dynamical-matrix object built the way a direct user of the module builds it (get_dynamical_matrix with its
        # default use_openmp=False: the serial branch of the compiled kernel): identical to the object Phonopy built
        from phonopy.harmonic.dynamical_matrix import get_dynamical_matrix

        dm_s = get_dynamical_matrix(np.array(ph.force_constants), sc, pr, nac_params=(dict(ph.nac_params) if c["nac"] else None))
        ddm_s = DerivativeOfDynamicalMatrix(dm_s)
        for q in qs[:3]:
            ddm.run(q, lang=c["lang"])
            ddm_s.run(q, lang=c["lang"])
            a_, b_ = np.array(ddm.d_dynamical_matrix), np.array(ddm_s.d_dynamical_matrix)
            obs["n_dD_serial_object"] = obs.get("n_dD_serial_object", 0) + 1
            if np.abs(a_ - b_).max() > 1e-12 * max(np.abs(a_).max(), 1e-300):
                bad("derivative_dynmat_serial_object", "dD/dq (%s) from a DynamicalMatrix built with use_openmp=False differs from the one Phonopy built by %.3e (scale %.3e) at q=%s" % (
                    c["lang"], np.abs(a_ - b_).max(), np.abs(a_).max(), np.round(q, 4).tolist()), **feat)
                break
        # group velocities (need Hermitian D => use any class; gradient oracle is of phonopy's own frequencies)
        factor = ph.unit_conversion_factor
        # phonopy symmetrises group velocities with the little group of q taken from the PRIMITIVE cell's symmetry; that is only legitimate when
        # the force constants really have that symmetry: model constants on an isotropically multiplied supercell (measured below); for the other
        # cases the object is rebuilt with is_symmetry=False (little group = identity), where the statement must hold for any constants.
        smd = np.array(c["smat"])
        iso = bool(c["fcclass"] == "sym" and np.array_equal(smd, np.diag(np.diagonal(smd))) and len(set(np.diagonal(smd))) == 1)
        gv_kw = {} if iso else {"is_symmetry": False}
        obs["gv_with_symmetry" if iso else "gv_without_symmetry"] = 1
        for mode in ("analytic", "fd"):
            if mode == "fd" or not iso:
                ph2, _ = setup.build_phonopy(dict(c, pmat=pm, **gv_kw), **({"group_velocity_delta_q": 1e-5} if mode == "fd" else {}))
                ph2.force_constants = np.array(ph.force_constants)
                if c["nac"]:
                    ph2.nac_params = dict(ph.nac_params)
            else:
                ph2 = ph
            for q in qs[:3] + [q_out]:
                gv = np.array(ph2.get_group_velocity_at_q(q))
                f0 = np.array(ph2.get_frequencies(q))
                fmax = np.abs(f0).max()
                gaps = np.array([min(abs(f0[i] - f0[k]) for k in range(len(f0)) if k != i) if len(f0) > 1 else fmax for i in range(len(f0))])
                # non-degenerate ALONG THE WHOLE finite-difference stencil: the gap must exceed the frequency change over the step, else
                # sorted frequencies swap bands inside the stencil and the difference quotient is not the derivative of one mode
                hmax = 2e-4
                ok = (gaps > 1e-3 * fmax) & (gaps > 40 * np.abs(gv).max() * hmax) & (f0 > 1e-2 * fmax)
                if not ok.any():
                    continue
                grads = []
                for h in (2e-4, 1e-4):
                    g = np.zeros((len(f0), 3))
                    for j in range(3):
                        dq = L @ (np.eye(3)[j] * h)
                        g[:, j] = (np.array(ph2.get_frequencies(q + dq)) - np.array(ph2.get_frequencies(q - dq))) / (2 * h)
                    grads.append(g)
                e1 = np.abs(grads[0][ok] - gv[ok]).max()
                e2 = np.abs(grads[1][ok] - gv[ok]).max()
                gs = max(np.abs(gv[ok]).max(), fmax * np.linalg.norm(L, axis=1).max() * 1e-3)
                obs["n_gv_" + mode] = obs.get("n_gv_" + mode, 0) + 1
                if q is q_out:
                    obs["n_gv_outside_first_zone" + ("_with_symmetry" if iso else "")] = obs.get("n_gv_outside_first_zone" + ("_with_symmetry" if iso else ""), 0) + 1
                tol = 1e-6 if mode == "analytic" else 1e-4
                est = float(np.abs(grads[0][ok] - grads[1][ok]).max())  # = 3 x the truncation error of the finer stencil
                if e2 > tol * gs and e2 > est:
                    bad("group_velocity", "group velocity (%s) differs from grad nu by %.3e (h) / %.3e (h/2), scale %.3e at q=%s" % (mode, e1, e2, gs, np.round(q, 4).tolist()),
                        mode=mode, **feat)
        # the model changes after group velocities have been computed (force constants x s: every frequency and every velocity scales by sqrt(s)
        # exactly; without NAC, whose term does not scale with the force constants)
        if not c["nac"]:
            gv_before = np.array(ph.get_group_velocity_at_q(qs[0]))
            f_before = np.array(ph.get_frequencies(qs[0]))
            s_m = 1.44
            fc_keep = np.array(ph.force_constants).copy()
            ph.force_constants = fc_keep * s_m
            gv_after = np.array(ph.get_group_velocity_at_q(qs[0]))
            f_after = np.array(ph.get_frequencies(qs[0]))
            obs["n_gv_after_model_change"] = obs.get("n_gv_after_model_change", 0) + 1
            # phonopy treats modes closer than 1e-4 (absolute, in its frequency unit) as degenerate and diagonalises dD/dq inside the set: scaling
            # the model can move a near-degenerate pair across that tolerance, which legitimately changes its two velocities (sweep 8 seed 54:
            # gap 9.7e-5 -> 1.16e-4) - only modes well clear of the tolerance before and after are compared
            gaps_b = np.array([min(abs(f_before[i] - f_before[k]) for k in range(len(f_before)) if k != i) if len(f_before) > 1 else 1.0 for i in range(len(f_before))])
            clear = gaps_b > 3e-4
            if clear.any() and np.abs(f_after - f_before * np.sqrt(s_m)).max() < 1e-9 * max(np.abs(f_before).max(), 1e-12):
                obs["n_gv_after_model_change_modes"] = obs.get("n_gv_after_model_change_modes", 0) + int(clear.sum())
                if np.abs(gv_after[clear] - gv_before[clear] * np.sqrt(s_m)).max() > 1e-8 * max(np.abs(gv_before).max(), 1e-12):
                    bad("group_velocity_stale", "after the force constants were multiplied by %.2f the frequencies scale by sqrt(s) but the group velocities at q=%s do not (max deviation %.3e of %.3e)" % (
                        s_m, np.round(qs[0], 4).tolist(), np.abs(gv_after[clear] - gv_before[clear] * np.sqrt(s_m)).max(), np.abs(gv_before).max()), **feat)
            ph.force_constants = fc_keep
        # the same through the band-structure route with band connection (modes re-ordered along the path): the velocity reported in slot b must be
        # the gradient of the frequency reported in slot b - reference: the (frequency, velocity) pairs of the single-q route at the same q
        path = np.array([qs[0] + t * (qs[1] - qs[0]) for t in np.linspace(0, 1, 9)])
        ph.run_band_structure([path], with_group_velocities=True, is_band_connection=True)
        bd = ph.get_band_structure_dict()
        fb, gb = np.array(bd["frequencies"][0]), np.array(bd["group_velocities"][0])
        for k in range(len(path)):
            f0 = np.array(ph.get_frequencies(path[k]))
            g0 = np.array(ph.get_group_velocity_at_q(path[k]))
            fmax = max(np.abs(f0).max(), 1e-12)
            for b in range(len(f0)):
                gap = min(abs(f0[b] - f0[j]) for j in range(len(f0)) if j != b) if len(f0) > 1 else fmax
                if gap < 1e-3 * fmax:
                    continue
                j = int(np.argmin(np.abs(fb[k] - f0[b])))
                obs["n_gv_band_connection"] = obs.get("n_gv_band_connection", 0) + 1
                if np.abs(gb[k][j] - g0[b]).max() > 1e-7 * max(np.abs(g0).max(), 1e-12):
                    bad("group_velocity_band_connection", "band connection: the velocity reported with frequency %.6f at q=%s is %s, that mode's velocity is %s" % (
                        f0[b], np.round(path[k], 4).tolist(), np.round(gb[k][j], 5).tolist(), np.round(g0[b], 5).tolist()), **feat)
                    break
            else:
                continue
            break
        obs["class_" + c["fcclass"]] = 1
        obs["nac_" + str(c["nac"])] = 1
        obs["lang_" + c["lang"]] = 1
        key = "d|%s|%s|%s|%s|%s|%s|%s" % (c["crystal"]["name"], c["smat"], c["pmat"], c["fcclass"], c["nac"], c["full"], c["lang"])
        return {"viol": viol, "nontrivial": nontrivial, "key": key, "obs": obs, "evals": obs.get("n_dD", 0),
                "sample": {"kind": "deriv", "crystal": c["crystal"], "smat": c["smat"], "pmat": pm, "fcclass": c["fcclass"], "nac": c["nac"], "lang": c["lang"]}}

    # ---- Grueneisen
    from phonopy import Phonopy, PhonopyGruneisen
    from vlib.gen import crystals

    cd = crystals.make(**c["crystal"])
    g, eps = c["g"], c["strain"]
    phs = []
    vols = []
    fc0 = None
    # volume triples need not be symmetric about the reference volume (round 9): V- = V0 (1 - k eps), k = 1 | 0.6 | 2.5; the closed form below
    # and the documented default increment (V+ - V-)/V0 hold for any triple
    epsm = eps * [1.0, 0.6, 2.5][int(c["seed"]) % 3]
    obs["grun_asymmetric_triple"] = int(epsm != eps)
    for s in (1.0, (1 + eps) ** (1 / 3.0), (1 - epsm) ** (1 / 3.0)):
        d = dict(cd)
        d["cell"] = (np.array(cd["cell"]) * s).tolist()
        at = crystals.to_atoms(d)
        ph = Phonopy(at, supercell_matrix=np.diag([2, 2, 2]), primitive_matrix=cd["pmat"] if cd["pmat"] != "P" else None)
        if fc0 is None:
            sc = ph.supercell
            fc0 = models.pair_fc(sc.cell, sc.scaled_positions, sc.symbols, cutoff=4.8)
            if np.abs(fc0).max() < 1e-8:
                return {"skip": "no interaction"}
            V0 = ph.primitive.volume
        V = ph.primitive.volume
        ph.force_constants = fc0 * (V / V0) ** (-2 * g)
        phs.append(ph)
        vols.append(V)
    gr = PhonopyGruneisen(phs[0], phs[1], phs[2])
    want = -((vols[1] / vols[0]) ** (-2 * g) - (vols[2] / vols[0]) ** (-2 * g)) * vols[0] / (2 * (vols[1] - vols[2]))
    out = {}
    for sym in (True, False):
        gr.set_mesh(c["mesh"], is_mesh_symmetry=sym)
        qpts, w, freqs, _, gam = gr.get_mesh()
        fmax = np.abs(freqs).max()
        m = freqs > 1e-3 * fmax
        # don't-care band: phonopy groups eigenvalues closer than 1e-4 as degenerate and rotates within the group; modes that are close but
        # not equal are then mixed legitimately. Assert only modes that are exactly degenerate (<1e-9) or clearly separated (>5e-4) from all others.
        ev = np.array(gr._mesh.get_eigenvalues())
        for iq in range(len(ev)):
            d = np.abs(ev[iq][:, None] - ev[iq][None, :]) + np.eye(ev.shape[1]) * 1e9
            amb = ((d > 1e-9) & (d < 5e-4)).any(axis=1)
            m[iq] &= ~amb
        obs["n_grun_modes"] = obs.get("n_grun_modes", 0) + int(m.sum())
        e = np.abs(np.array(gam)[m] - want).max() if m.any() else 0.0
        if e > 1e-8 * abs(want):
            bad("gruneisen_closed_form", "mode Grueneisen parameter differs from the closed form %.10g by %.3e (mesh symmetry %s)" % (want, e, sym), sym=sym)
        out[sym] = int(m.sum())
    # the same closed form through the band-structure route and with the strain increment given explicitly (= (V+ - V-)/V0, what the default works
    # out by itself): four combinations of route x explicit/default increment
    ds_ = (vols[1] - vols[2]) / vols[0]
    prng_ = np.random.default_rng(c["seed"] + 3)
    path_ = np.array([prng_.uniform(-0.5, 0.5, 3) + t * np.array([0.31, 0.17, 0.11]) for t in np.linspace(0, 1, 5)])
    for route in ("mesh", "band"):
        for ds in (None, ds_):
            try:
                grb = PhonopyGruneisen(phs[0], phs[1], phs[2], delta_strain=ds)
                if route == "mesh":
                    grb.set_mesh(c["mesh"], is_mesh_symmetry=False)
                    _, _, fb, _, gb = grb.get_mesh()
                    fb, gb = np.array(fb), np.array(gb)
                else:
                    grb.set_band_structure([path_])
                    _, _, fb, _, gb = grb.get_band_structure()
                    fb, gb = np.array(fb[0]), np.array(gb[0])
            except Exception as e_:
                bad("gruneisen_exception", "PhonopyGruneisen(delta_strain=%r) %s route raised %r" % (ds, route, e_), route=route, explicit_strain=ds is not None)
                continue
            mb = fb > 1e-3 * np.abs(fb).max()
            for iq in range(len(fb)):  # same don't-care band as above, from the frequencies of this route
                lam_ = (fb[iq] / phs[0].unit_conversion_factor) ** 2
                dd_ = np.abs(lam_[:, None] - lam_[None, :]) + np.eye(len(lam_)) * 1e9
                mb[iq] &= ~((dd_ > 1e-9) & (dd_ < 5e-4)).any(axis=1)
            obs["n_grun_route_%s_%s" % (route, "explicit" if ds is not None else "default")] = int(mb.sum())
            if mb.any() and np.abs(gb[mb] - want).max() > 1e-8 * abs(want):
                bad("gruneisen_closed_form", "%s route, delta_strain=%s: mode Grueneisen parameter %.10g differs from the closed form %.10g" % (
                    route, "default" if ds is None else "%.6g (explicit)" % ds, float(gb[mb][np.argmax(np.abs(gb[mb] - want))]), want), route=route, explicit_strain=ds is not None)
    # volume-dependent pair model: reduced vs full mesh
    phs2 = []
    # volume triples need not be symmetric about the reference volume (round 9): V- = V0 (1 - k eps), k = 1 | 0.6 | 2.5; the closed form below
    # and the documented default increment (V+ - V-)/V0 hold for any triple
    epsm = eps * [1.0, 0.6, 2.5][int(c["seed"]) % 3]
    obs["grun_asymmetric_triple"] = int(epsm != eps)
    for s in (1.0, (1 + eps) ** (1 / 3.0), (1 - epsm) ** (1 / 3.0)):
        d = dict(cd)
        d["cell"] = (np.array(cd["cell"]) * s).tolist()
        ph = Phonopy(crystals.to_atoms(d), supercell_matrix=np.diag([2, 2, 2]), primitive_matrix=cd["pmat"] if cd["pmat"] != "P" else None)
        sc = ph.supercell
        ph.force_constants = models.pair_fc(sc.cell, sc.scaled_positions, sc.symbols, cutoff=4.8 * s)
        phs2.append(ph)
    gr2 = PhonopyGruneisen(*phs2)
    sums = {}
    for sym in (True, False):
        gr2.set_mesh(c["mesh"], is_mesh_symmetry=sym)
        qpts, w, freqs, _, gam = gr2.get_mesh()
        gam, freqs, w = np.array(gam), np.array(freqs), np.array(w, float)
        fmax = np.abs(freqs).max()
        gm = np.where(freqs > 1e-2 * fmax, gam, 0.0)
        sums[sym] = (len(w), float((w * gm.sum(axis=1)).sum() / w.sum()), float((w * (gm ** 2).sum(axis=1)).sum() / w.sum()), float((w * (gm * freqs ** 2).sum(axis=1)).sum() / w.sum()))
    obs["n_grun_mesh_pairs"] = 1
    obs["grun_reduced"] = int(sums[True][0] < sums[False][0])
    for k in (1, 2, 3):
        sc_ = max(abs(sums[False][k]), 1e-9)
        if abs(sums[True][k] - sums[False][k]) > 1e-8 * sc_:
            bad("gruneisen_mesh_symmetry", "weighted sum #%d of Grueneisen parameters differs between reduced (%.12g) and full (%.12g) mesh" % (k, sums[True][k], sums[False][k]), mesh=c["mesh"])
    # strained cells of lower symmetry than the reference (uniaxial / shear strain, the delta-strain use case): the Grueneisen mesh may only use
    # the symmetry common to the three cells; reduced vs full mesh again
    srng = np.random.default_rng(c["seed"] + 1)
    # (every mode changes the volume to first order: the parameter is a derivative with respect to V, a pure shear would divide by ~0)
    mode = ["uniaxial_c", "uniaxial_a", "uniaxial_c+shear_xy", "uniaxial_a+shear_yz"][srng.integers(4)]
    E = np.zeros((3, 3))
    if mode.startswith("uniaxial_c"):
        E[2, 2] = 1.0
    else:
        E[0, 0] = 1.0
    if mode.endswith("shear_xy"):
        E[0, 1] = E[1, 0] = 0.35
    elif mode.endswith("shear_yz"):
        E[1, 2] = E[2, 1] = 0.35
    phs3 = []
    for sgn in (0.0, 1.0, -1.0):
        d = dict(cd)
        d["cell"] = (np.array(cd["cell"]) @ (np.eye(3) + sgn * eps * E)).tolist()
        ph = Phonopy(crystals.to_atoms(d), supercell_matrix=np.diag([2, 2, 2]), primitive_matrix=cd["pmat"] if cd["pmat"] != "P" else None)
        sc = ph.supercell
        ph.force_constants = models.pair_fc(sc.cell, sc.scaled_positions, sc.symbols, cutoff=4.8)
        phs3.append(ph)
    try:
        gr3 = PhonopyGruneisen(*phs3)
        sums3 = {}
        for sym in (True, False):
            gr3.set_mesh(c["mesh"], is_mesh_symmetry=sym)
            qpts, w, freqs, _, gam = gr3.get_mesh()
            gam, freqs, w = np.array(gam), np.array(freqs), np.array(w, float)
            fmax = np.abs(freqs).max()
            gm = np.where(freqs > 1e-2 * fmax, gam, 0.0)
            sums3[sym] = (len(w), float((w * gm.sum(axis=1)).sum() / w.sum()), float((w * (gm ** 2).sum(axis=1)).sum() / w.sum()), float((w * (gm * freqs ** 2).sum(axis=1)).sum() / w.sum()),
                          int(w.sum()))
    except Exception as e_:
        sums3 = None
        bad("gruneisen_exception", "PhonopyGruneisen on a %s-strained triple raised %r" % (mode, e_), strain_mode=mode)
    if sums3 is not None:
        obs["n_grun_anisotropic_pairs"] = 1
        obs["grun_anisotropic_reduced"] = int(sums3[True][0] < sums3[False][0])
        if sums3[True][4] != sums3[False][4]:
            bad("gruneisen_mesh_symmetry", "%s strain: weights of the reduced mesh sum to %d, full mesh has %d points" % (mode, sums3[True][4], sums3[False][4]), mesh=c["mesh"], strain_mode=mode)
        for k in (1, 2, 3):
            sc_ = max(abs(sums3[False][k]), abs(sums3[False][2]) ** 0.5 if k == 1 else 0.0, 1e-9)
            if abs(sums3[True][k] - sums3[False][k]) > 1e-8 * sc_:
                bad("gruneisen_mesh_symmetry", "%s strain: weighted sum #%d of Grueneisen parameters differs between reduced (%.12g, %d points) and full (%.12g, %d points) mesh" % (
                    mode, k, sums3[True][k], sums3[True][0], sums3[False][k], sums3[False][0]), mesh=c["mesh"], strain_mode=mode)
    key = "g|%s|%s|%.4f|%.4f" % (c["crystal"]["name"], c["mesh"], g, eps)
    return {"viol": viol, "nontrivial": bool(out[False] >= 3), "key": key, "obs": obs, "evals": 6,
            "sample": {"kind": "grun", "crystal": c["crystal"], "g": g, "strain": eps, "mesh": c["mesh"], "closed_form": want, "n_ir": sums[True][0], "n_full": sums[False][0]}}


def summarize(results, obs, tier):
    inc = []
    for k in ("n_dD", "n_gv_analytic", "n_gv_fd", "class_sym", "class_arbitrary", "nac_wang", "lang_C", "lang_Py", "n_grun_modes", "grun_reduced", "n_grun_anisotropic_pairs", "grun_anisotropic_reduced"):
        if obs.get(k, 0) == 0:
            inc.append("%s never exercised" % k)
    return {}, inc
