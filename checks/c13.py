"""C13 - compiled kernels match reference semantics, any thread count, memory-safe.

The sanitizer property. One kernel workload (cases of the other checks, i.e. always through the public classes and with
their reference oracles) is executed under five observers:
  asan   : ASan+UBSan build (abort on first report) in the real interpreter, PYTHONMALLOC=malloc
  tsan   : TSan build on the pthread mini-OpenMP runtime, thread counts {2,3,4,7,16}, permuted thread ids + yields, repeated
  guard  : production OpenMP build, every array argument re-homed next to PROT_NONE guard pages (M1 tap)
  diff   : production build, every captured call re-executed with 1,2,3,5,8,16 threads and on the serial build, bitwise compare
  serial : the no-OpenMP build under the same reference oracles
"""

from __future__ import annotations

import glob
import importlib
import os
import re

import numpy as np

PROP = "C13"
LEVEL = "exploration"
VARIANTS = ("omp", "serial", "asan", "tsan", "dbg")
CASE_TIMEOUT = 1200
CRASH_IS_VIOLATION = True
CONTRACTS = True
RULE = ("workload = cases of checks C01,C02,C04,C05,C06,C07,C08,C09,C10,C11,C12 (all kernels are reached through the public classes, never with hand-made raw "
        "arguments) x observer {asan, tsan(threads 2,3,4,7,16 x permuted thread ids x yields), guard pages, differential re-execution (threads 1,2,3,5,8,16 + serial build), serial build}; "
        "an evaluation = one workload case under one observer; non-trivial = the case made at least one kernel call; distinct = (sub-check, case index, observer, threads); "
        "the M1 tap must have seen every exported kernel with >= 3 distinct shape tuples; "
        "additions of rounds 6-8: picks include a supercell of more than a thousand atoms (C05) and a mesh of thousands of q-points (C10)")
ASSUMPTIONS = [
    "red-zone tools miss intra-object and far overflows (mitigated by guard pages, not eliminated); TSan sees only the schedules that happened",
    "nanobind glue exercised through the shim; numpy/CPython uninstrumented (MSan not usable)",
    "serial-vs-OpenMP build agreement within 4 ulp (element) or 256 ulp of the array's largest magnitude (vectorisation / re-association)",
]
MIN_NONTRIVIAL = {"quick": 150, "thorough": 800}

SUBS = ["c01", "c02", "c05", "c06", "c07", "c08", "c09", "c10", "c11", "c12", "c04"]
_INIT = {}


def gen_cases(tier, seed):
    rng = np.random.default_rng([seed, 13])
    per = {"quick": 5, "thorough": 24}[tier]
    base = []
    for sub in SUBS:
        mod = importlib.import_module("checks." + sub)
        cs = mod.gen_cases("quick", seed + 131)
        # prefer cheap cases, keep diversity: every k-th case
        cs = [c for c in cs if c.get("_cost", 1) <= 2500]
        step = max(1, len(cs) // per)
        pick = cs[::step][:per]
        if sub == "c10":
            pick = [c for c in cs if c.get("kind") == "synthetic" and c.get("lang") == "C"][:per] + [c for c in cs if c.get("kind") == "real"][:2]
            # (a mesh of thousands of q-points: block-wise processing in the glue or the kernel only shows there)
            pick += [c for c in cs if c.get("kind") == "synthetic" and c.get("lang") == "C" and c.get("large") and c not in pick][:1]
        if sub == "c09":
            pick = [c for c in cs if c.get("kind") == "phonon"][:per]
        if sub == "c06":
            pick = [c for c in cs if c.get("kind") == "roundtrip"][:per] + [c for c in cs if c.get("kind") == "ph2ph"][:3]
        if sub == "c08":
            gz = [c for c in cs if c.get("method") == "gonze"]
            wg = [c for c in cs if c.get("method") == "wang"]
            pick = gz[::max(1, len(gz) // per)][:per] + wg[::max(1, len(wg) // 3)][:3]
        if sub == "c12":
            # the compiled derivative with the Wang term on low-symmetry polar cells (Born tensors without any symmetry) must be among the cases
            low = [c for c in cs if c.get("kind") == "deriv" and c.get("nac") == "wang" and c.get("lang") == "C" and c["crystal"]["name"] in ("tric2", "tric3")][:2]
            # ... and so must a centred cell whose atoms are listed interleaved (lattice images of a primitive atom not contiguous in the supercell)
            ilv = [c for c in cs if c.get("kind") == "deriv" and c.get("lang") == "C" and c.get("pmat") == "centring" and c["crystal"].get("order") in ("interleave", "random")
                   and c["crystal"]["name"] in ("rocksalt", "zincblende", "diamond", "fcc", "perovskite", "cscl")][:2]
            low = low + [c for c in ilv if c not in low]
            pick = low + [c for c in pick if c not in low][:per]
        if sub == "c05":
            # tolerance arithmetic of the two smallest-vector kernels: near-tie inputs for the dense and for the sparse kernel must be among the cases
            near = sorted([c for c in cs if c.get("near", 0) > 0], key=lambda c: -c["near"])  # the larger perturbation (0.2 symprec) first
            want = [next((c for c in near if c["dense"]), None), next((c for c in near if not c["dense"]), None)]
            want = [c for c in want if c is not None]
            pick = want + [c for c in pick if c not in want][:max(0, per - len(want))]
            pick += [c for c in cs if c.get("family") == "large" and c["dense"]][:1]  # a supercell of more than a thousand atoms
        if sub == "c11":
            # grid-index arithmetic of the tetrahedron kernels: meshes with n0 < n1, n0 > n1 and n1 != n2 must be among the cases
            real = [c for c in cs if c.get("kind") == "real"]
            want = [next((c for c in real if c["mesh"][0] < c["mesh"][1]), None), next((c for c in real if c["mesh"][0] > c["mesh"][1]), None),
                    next((c for c in real if c["mesh"][1] != c["mesh"][2] and c["mesh"][0] == c["mesh"][1]), None)]
            want = [c for c in want if c is not None]
            fields = [c for c in cs if c.get("kind") == "field"]
            # (the synthetic-field cases are the only ones that reach all_tetrahedra_relative_grid_address / tetrahedra_integration_weight: keep three)
            pick = want + fields[::max(1, len(fields) // 3)][:3] + [c for c in pick if c not in want and c.get("kind") != "field"][:max(0, per - len(want) - 3)]
        if sub == "c04":
            pick = [c for c in cs if c.get("kind") in ("primitive", "primitive_explicit")][:per]
        for i, c in enumerate(pick):
            base.append((sub, i, c))
    cases = []
    observers = [("asan", "asan", 3, {}), ("guard", "omp", 2, {"VERIF_TAP_MODE": "guard"}), ("diff", "omp", 4, {"VERIF_TAP_MODE": "diff"}), ("serial", "serial", 1, {})]
    tsan_threads = [2, 3, 4, 7, 16] if tier == "thorough" else [3, 7]
    reps = 2 if tier == "thorough" else 1
    for nt in tsan_threads:
        for rep in range(reps):
            observers.append(("tsan", "tsan", nt, {"MINIGOMP_PERM_SEED": str(1000 * rep + nt + seed), "MINIGOMP_YIELD": str(3 * rep + 2)}))
    if tier == "thorough":
        # valgrind memcheck on the -O0 -g build for a reduced workload: the one thing ASan cannot see is a read of uninitialised memory
        observers.append(("memcheck", "dbg", 1, {"VERIF_CMD_PREFIX": "\x1f".join(["valgrind", "--error-limit=no", "--num-callers=30", "--log-file={base}.vg.%p"]),
                                                  "PYTHONMALLOC": "malloc"}))
    for obs_name, variant, threads, env in observers:
        for sub, i, c in base:
            if obs_name == "memcheck" and (i > 0 or sub in ("c04", "c09", "c15")):
                continue  # one case per sub-check is enough at valgrind's 20-50x cost
            if obs_name == "tsan" and sub in ("c04", "c05"):
                continue  # no OpenMP region is reachable from these (measured: regions counter stays 0)
            cc = {k: v for k, v in c.items() if not k.startswith("_")}
            cases.append({"sub": sub, "idx": i, "case": cc, "observer": obs_name, "_variant": variant, "_threads": threads, "_env": dict(env, VERIF_OBSERVER=obs_name),
                          "_cost": c.get("_cost", 1) * {"asan": 3, "tsan": 8, "guard": 2, "diff": 6, "serial": 1, "memcheck": 40}[obs_name]})
    return cases


def _init():
    if _INIT:
        return
    from vlib import build
    from vlib.monitors import tap

    mode = os.environ.get("VERIF_TAP_MODE", "")
    serial = None
    if mode == "diff":
        serial = build.so_path("serial")
    tap.install(mode=(mode,) if mode else (), serial_so=serial, base_threads=4)
    _INIT["tap"] = tap
    _INIT["observer"] = os.environ.get("VERIF_OBSERVER", "?")


def run_case(c):
    _init()
    tap = _INIT["tap"]
    before = sum(tap.STATE["calls"].values())
    mod = importlib.import_module("checks." + c["sub"])
    r = mod.run_case(dict(c["case"])) or {}
    out = {"viol": [], "obs": {}}
    for v in r.get("viol", []) or []:
        v = dict(v)
        v["kind"] = "reference_mismatch_" + str(v.get("kind"))
        v["observer"] = c["observer"]
        v["sub"] = c["sub"]
        out["viol"].append(v)
    for v in tap.drain():
        v["observer"] = c["observer"]
        v["sub"] = c["sub"]
        out["viol"].append(v)
    if r.get("error"):
        out["error"] = r["error"]
    ncalls = sum(tap.STATE["calls"].values()) - before
    out["nontrivial"] = bool(ncalls > 0)
    out["key"] = "%s|%d|%s|%s" % (c["sub"], c["idx"], c["observer"], c.get("_threads"))
    out["obs"] = {"cases_" + c["observer"]: 1, "kernel_calls_" + c["observer"]: ncalls}
    out["sample"] = {"sub": c["sub"], "observer": c["observer"], "threads": c.get("_threads"), "kernel_calls": ncalls, "case": {k: v for k, v in list(c["case"].items())[:6]}}
    return out


def _parse_tsan(path_prefix):
    blocks = []
    for fn in glob.glob(path_prefix + "*"):
        try:
            txt = open(fn, errors="replace").read()
        except OSError:
            continue
        for b in txt.split("=================="):
            if "WARNING: ThreadSanitizer" not in b:
                continue
            relevant = re.search(r"/c/[a-z_]+\.c:|_phonopy\.cpp|minigomp\.c", b) is not None
            head = b.strip().splitlines()[0] if b.strip() else ""
            frames = re.findall(r"#\d+ (\w+) (?:/[^\s]*/)?([\w.]+):(\d+)", b)
            funcs = [f[0] for f in frames if re.match(r"(phpy_|dym_|ddm_|thm_|gsv_|get_|set_|py_|GOMP|runner|multiply|rgd_|tpl_|distribute|transform)", f[0])]
            blocks.append({"relevant": relevant, "head": head, "funcs": funcs[:6], "text": b.strip()[:1800]})
    return blocks


def process_obs():
    """Called once at the end of every worker process: tap summary + sanitizer reports of this process."""
    out = {}
    if "tap" in _INIT:
        s = _INIT["tap"].summary()
        out["tap"] = {"calls": s["kernel_calls"], "diff_calls": s["diff_calls"], "guard_calls": s["guard_calls"], "malformed_arguments": s["malformed_arguments"]}
        out["tap_shapes"] = s["kernel_shape_samples"]
        out["kernels_exported"] = s["kernels_exported"]
        out["diff_labels"] = {k: v for k, v in s["diff_labels"].items()}
        out["cast_table_kernels"] = s["cast_table_kernels"]
    obs = _INIT.get("observer")
    if obs == "tsan":
        import ctypes

        try:
            lib = ctypes.CDLL(os.environ["PHONOPY_VERIF_EXT"])
            for nm in ("minigomp_calls", "minigomp_regions", "minigomp_max_threads"):
                getattr(lib, nm).restype = ctypes.c_ulonglong
            out["minigomp"] = {"parallel_calls": int(lib.minigomp_calls()), "regions_multithreaded": int(lib.minigomp_regions())}
            out["minigomp_max_threads"] = [int(lib.minigomp_max_threads())]
        except Exception as e:
            out["minigomp_error"] = 1
        blocks = _parse_tsan(os.environ.get("VERIF_SAN_LOG", "/nonexistent"))
        out["tsan_report_blocks"] = len(blocks)
        out["tsan_relevant_blocks"] = sum(1 for b in blocks if b["relevant"])
        seen = set()
        viol = []
        for b in blocks:
            if not b["relevant"]:
                continue
            key = (b["head"], tuple(b["funcs"]))
            if key in seen:
                continue
            seen.add(key)
            viol.append({"kind": "tsan_report", "msg": b["head"], "functions": b["funcs"], "report": b["text"], "observer": "tsan"})
        if viol:
            out["viol"] = viol[:10]
    out["variant"] = os.environ.get("PHONOPY_VERIF_VARIANT")
    return out


def post_shard(variant, extra_env, base):
    """Parent-side parsing of valgrind logs (written when the worker exits)."""
    if extra_env.get("VERIF_OBSERVER") != "memcheck":
        return None
    blocks, relevant = 0, []
    for fn in glob.glob(base + ".vg.*"):
        try:
            txt = open(fn, errors="replace").read()
        except OSError:
            continue
        for b in re.split(r"\n==\d+== \n", txt):
            if not re.search(r"Invalid (read|write)|uninitialised|Mismatched free|Invalid free|definitely lost", b):
                continue
            blocks += 1
            if re.search(r"\((phonopy|dynmat|derivative_dynmat|rgrid|tetrahedron_method)\.c:\d+\)|_phonopy\.cpp:\d+", b):
                first = [ln for ln in b.splitlines() if ln.strip()][:1]
                relevant.append({"kind": "memcheck_report", "msg": re.sub(r"==\d+== ", "", first[0]) if first else "valgrind report", "report": re.sub(r"==\d+== ", "", b)[:1800], "observer": "memcheck"})
    out = {"memcheck_blocks_total": blocks, "memcheck_blocks_in_phonopy_c": len(relevant), "memcheck_logs": len(glob.glob(base + ".vg.*"))}
    if relevant:
        seen, uniq = set(), []
        for r in relevant:
            k = r["report"][:300]
            if k not in seen:
                seen.add(k)
                uniq.append(r)
        out["viol"] = uniq[:8]
    return out


def crash_policy(rec):
    """A TSan worker that dies with TSan's exit code but without any report touching phonopy's C code died of the tool's own
    runtime (seen sporadically, not reproducible on the same case): re-run that case instead of guessing a verdict."""
    if rec.get("variant") == "tsan":
        tail = rec.get("stderr_tail") or ""
        relevant = re.search(r"/c/[a-z_]+\.c:|_phonopy\.cpp|minigomp\.c", tail) is not None
        if not relevant:
            return "retry"
    return "record"


def classify_crash(c):
    tail = c.get("stderr_tail") or ""
    kind = "crash"
    if "ThreadSanitizer: data race" in tail and re.search(r"/c/[a-z_]+\.c:|_phonopy\.cpp|minigomp\.c", tail):
        kind = "tsan_report"
    elif "AddressSanitizer" in tail:
        kind = "asan_report"
    elif "runtime error:" in tail:
        kind = "ubsan_report"
    elif "Segmentation fault" in tail or c.get("returncode") in (-11, 139):
        kind = "segfault"
    m = re.search(r"(AddressSanitizer: [^\n]*)|(runtime error: [^\n]*)", tail)
    return {"kind": kind, "msg": (m.group(0) if m else "worker died rc=%s" % c.get("returncode")), "observer": (c.get("extra_env") or {}).get("VERIF_OBSERVER"),
            "sub": (c.get("case") or {}).get("sub")}


def summarize(results, obs, tier):
    inc = []
    exported = obs.get("kernels_exported", [])
    shapes = {kn: len(v) for kn, v in (obs.get("tap_shapes") or {}).items()}  # union over all worker processes (lists merged as sets)
    calls = (obs.get("tap") or {}).get("calls", {})
    missing = [k for k in exported if calls.get(k, 0) == 0]
    fixed_shape = ("all_tetrahedra_relative_grid_address", "tetrahedra_relative_grid_address", "tetrahedra_integration_weight")  # argument shapes are constants
    few = [k for k in exported if 0 < shapes.get(k, 0) < 3 and k not in fixed_shape]
    if not exported:
        inc.append("kernel tap saw no exported kernels")
    if missing:
        inc.append("kernels never reached by the workload: %s" % missing)
    if few:
        inc.append("kernels reached with fewer than 3 distinct shape tuples: %s" % few)
    for o in ("asan", "tsan", "guard", "diff", "serial") + (("memcheck",) if tier == "thorough" else ()):
        if obs.get("cases_" + o, 0) == 0:
            inc.append("observer %s ran no case" % o)
    if (obs.get("minigomp") or {}).get("regions_multithreaded", 0) == 0:
        inc.append("no OpenMP region ran multi-threaded under TSan")
    if (obs.get("tap") or {}).get("diff_calls", 0) == 0:
        inc.append("differential re-execution never happened")
    if (obs.get("tap") or {}).get("guard_calls", 0) == 0:
        inc.append("guard-page re-homing never happened")
    extra = {"kernels_exported": exported, "kernel_calls": calls, "kernel_max_distinct_shapes": shapes, "tsan": {"blocks": obs.get("tsan_report_blocks", 0), "relevant": obs.get("tsan_relevant_blocks", 0),
                                                                                                     "minigomp": obs.get("minigomp"), "max_threads": obs.get("minigomp_max_threads")},
             "differential_labels": obs.get("diff_labels"),
             "memcheck": {"logs": obs.get("memcheck_logs", 0), "report_blocks_total": obs.get("memcheck_blocks_total", 0), "blocks_with_phonopy_c_frames": obs.get("memcheck_blocks_in_phonopy_c", 0)}}
    return extra, inc
