"""C10 - thermal properties equal harmonic closed forms and obey thermodynamic identities.

Post-conditions on ThermalProperties.run (always-on sign contract) + sweep of the (nu, T) plane through a stub Mesh and
through real Phonopy meshes; oracle = overflow-free closed forms (expm1/log1p) in the documented units.
"""

from __future__ import annotations

import numpy as np

PROP = "C10"
LEVEL = "exploration"
VARIANTS = ("omp",)
CASE_TIMEOUT = 1200
RULE = ("kind synthetic: random (frequencies, weights) meshes fed through a stub Mesh object x temperature grids spanning h nu/kT from 1e-6 to 1e5 x cutoff "
        "(none | inside the spectrum) x imaginary modes (excluded | pretend_real) x band_indices x projection x classical x lang C|Py; "
        "oracles: closed forms, C == Py, T=0 limits, finiteness, signs/monotonicity/Dulong-Petit bound, S=-dF/dT and C_V=T dS/dT by central differences with two steps; "
        "kind real: zoo crystals through Phonopy.run_thermal_properties vs the closed forms on the mesh it used; "
        "non-trivial = at least one mode above the cutoff and T>0 present; distinct = (seed, options); "
        "additions of rounds 6-8: one synthetic case in eight has 1000-20000 q-points; arrays handed out are re-read after the object ran again")
ASSUMPTIONS = [
    "documented units: F in kJ/mol, S and C_V in J/K/mol per primitive cell; constants from phonopy.units",
    "closed-form comparison tolerance 1e-8 of the natural scale (k_B T + h nu per mode for F, k_B per mode for S and C_V); sign floor 1e-12 k_B per mode",
]
MIN_NONTRIVIAL = {"quick": 200, "thorough": 1500}


def gen_cases(tier, seed):
    rng = np.random.default_rng([seed, 10])
    cases = []
    n = 320 if tier == "quick" else 3000
    for i in range(n):
        cases.append({"kind": "synthetic", "_threads": [1, 2, 3, 5, 7, 16][int(rng.integers(6))], "seed": int(rng.integers(10 ** 9)), "lang": ["C", "Py"][i % 2], "classical": bool(rng.integers(5) == 0),
                      "cutoff": [None, "inside", "inside", -1.0][rng.integers(4)], "imag": bool(rng.integers(3) == 0), "pretend_real": bool(rng.integers(4) == 0),
                      "band_indices": bool(i % 5 == 0), "projection": bool(i % 5 == 1),  # never together: unsupported combination (raises)
                      "tgrid": ["wide", "cold", "hot", "linear"][rng.integers(4)], "large": bool(i % 8 == 3)})
    names = ["sc", "fcc", "rocksalt", "hcp", "rutile", "tric2", "diamond", "wurtzite"]
    for i in range(16 if tier == "quick" else 80):
        cases.append({"kind": "real", "crystal": {"name": names[i % len(names)]}, "mesh": [int(v) for v in rng.integers(2, 6, 3)], "classical": bool(rng.integers(4) == 0),
                      "cutoff": [None, 0.5, 2.0][rng.integers(3)], "seed": int(rng.integers(10 ** 6)), "_cost": 5})
    return cases


class StubPrimitive:
    Z = 1


class StubDM:
    primitive = StubPrimitive()


class StubMesh:
    def __init__(self, freqs, weights, eigvecs=None):
        self.frequencies = np.array(freqs, dtype="double", order="C")
        self.weights = np.array(weights, dtype="int64")
        self.eigenvectors = eigvecs
        self.dynamical_matrix = StubDM()


def oracle(freqs_thz, weights, T, cutoff_thz, classical, proj=None):
    """Closed forms, overflow-free. Returns F [kJ/mol], S, Cv [J/K/mol] normalised by sum(weights)."""
    from phonopy.units import EvTokJmol, Kb, THzToEv

    f = np.array(freqs_thz, float) * THzToEv
    w = np.array(weights, float)[:, None] * np.ones_like(f)
    cut = 0.0 if (cutoff_thz is None or cutoff_thz < 0) else cutoff_thz * THzToEv
    m = f > cut
    if proj is not None:
        # projection: weights per (q, band) onto components -> arrays of shape (ncomp,)
        pw = proj * w[:, None, :]  # (nq, ncomp, nb)
    nw = np.array(weights, float).sum()
    fm = np.where(m, f, 1.0)
    if T <= 0:
        Fm = np.where(m, 0.0 if classical else fm / 2, 0.0)
        Sm = np.zeros_like(f)
        Cm = np.zeros_like(f)
    else:
        x = fm / (Kb * T)
        if classical:
            Fm = Kb * T * np.log(x)
            Sm = Kb * (1 - np.log(x))
            Cm = Kb * np.ones_like(x)
        else:
            l1p = np.log1p(-np.exp(-x))
            Fm = fm / 2 + Kb * T * l1p
            with np.errstate(over="ignore", invalid="ignore"):
                nocc_x = np.where(x < 700, x / np.expm1(np.minimum(x, 700)), x * np.exp(-np.minimum(x, 745)) / (-np.expm1(-x)))
            Sm = Kb * (nocc_x - l1p)
            Cm = Kb * x ** 2 * np.exp(-np.minimum(x, 745)) / np.expm1(-x) ** 2
        Fm, Sm, Cm = [np.where(m, a, 0.0) for a in (Fm, Sm, Cm)]
    if proj is None:
        F = (Fm * w).sum() / nw * EvTokJmol
        S = (Sm * w).sum() / nw * EvTokJmol * 1000
        C = (Cm * w).sum() / nw * EvTokJmol * 1000
    else:
        F = np.einsum("qcb,qb->c", pw, Fm) / nw * EvTokJmol
        S = np.einsum("qcb,qb->c", pw, Sm) / nw * EvTokJmol * 1000
        C = np.einsum("qcb,qb->c", pw, Cm) / nw * EvTokJmol * 1000
    return F, S, C, int((m * w).sum())


def run_case(c):
    from phonopy.phonon.thermal_properties import ThermalProperties
    from phonopy.units import EvTokJmol, Kb, THzToEv

    viol, obs = [], {}

    def bad(kind, msg, **kw):
        if len(viol) < 8:
            viol.append(dict(kind=kind, msg=msg, **kw))

    kJ = EvTokJmol
    kb_J = Kb * kJ * 1000  # J/K/mol per mode
    if c["kind"] == "synthetic":
        rng = np.random.default_rng(c["seed"])
        nq, nb = int(rng.integers(1, 7)), int(rng.integers(1, 10))
        if c.get("large"):
            # thousands of q-points (dense meshes are the ordinary production use; kernels that work through the q-points in blocks only show
            # their block handling there): sizes around and well above powers of two
            nq, nb = int([1000, 4095, 4096, 4097, 5000, 8193, 9261, 13000, 20000][int(rng.integers(9))] + rng.integers(0, 3)), int(rng.integers(1, 4))
        freqs = 10 ** rng.uniform(-2, 1.7, (nq, nb))  # 0.01 .. 50 THz
        if c["imag"]:
            freqs[rng.integers(nq), rng.integers(nb)] *= -1
            freqs[0, 0] = -abs(freqs[0, 0])
        if rng.integers(4) == 0:
            freqs[rng.integers(nq), rng.integers(nb)] = 0.0
        weights = rng.integers(1, 9, nq)
        cutoff = c["cutoff"]
        if cutoff == "inside":
            cutoff = float(np.sort(np.abs(freqs).ravel())[len(freqs.ravel()) // 3] * 1.0001)
        fpos = np.abs(freqs[freqs != 0])
        fmid = float(np.median(fpos))
        t_of_x = lambda x: fmid * THzToEv / Kb / x
        if c["tgrid"] == "wide":
            temps = np.concatenate([[0.0], np.sort([t_of_x(x) for x in 10 ** rng.uniform(-5, 5, 12)])])
        elif c["tgrid"] == "cold":
            temps = np.concatenate([[0.0], np.sort([t_of_x(x) for x in 10 ** rng.uniform(2, 5, 12)])])
        elif c["tgrid"] == "hot":
            temps = np.sort([t_of_x(x) for x in 10 ** rng.uniform(-6, 0, 12)])
        else:
            temps = np.arange(0, 1000, 50.0)
        bi = None
        if c["band_indices"] and nb > 1:
            k = int(rng.integers(1, nb))
            bi = [sorted(rng.choice(nb, k, replace=False).tolist())]
        eig = None
        proj = None
        if c["projection"]:
            A = rng.standard_normal((nq, nb, nb)) + 1j * rng.standard_normal((nq, nb, nb))
            eig = np.array([np.linalg.qr(a)[0] for a in A])
        use_f = freqs[:, bi[0]] if bi else freqs
        if c["pretend_real"]:
            use_f = np.abs(use_f)
        if eig is not None:
            e2 = np.abs(eig[:, :, bi[0]] if bi else eig) ** 2  # (nq, comp, band)
            proj = e2
        if c["projection"]:
            c = dict(c, lang="C")  # projection is produced on top of the default (compiled) run; the Py path returns per-component arrays instead
        tp = ThermalProperties(StubMesh(freqs, weights, eig), cutoff_frequency=cutoff, pretend_real=c["pretend_real"], band_indices=bi,
                               is_projection=c["projection"], classical=c["classical"])
        tp.temperatures = temps
        tp.run(lang=c["lang"])
        held_first = [a for a in tp.thermal_properties]  # the arrays as handed out (no copy): must still say the same after the object has run again
        T_, F_, S_, C_ = [np.array(a, float) for a in tp.thermal_properties]
        feat = dict(lang=c["lang"], classical=c["classical"], cutoff=cutoff, pretend_real=c["pretend_real"], projection=c["projection"])
        # the same object run again (same temperatures: same answers; then another grid of the same length: the answers of a fresh object)
        tp.run(lang=c["lang"])
        _, Fr, Sr, Cr = [np.array(a, float) for a in tp.thermal_properties]
        obs["n_rerun_same_object"] = obs.get("n_rerun_same_object", 0) + 1
        for nm, a_, b_ in (("F", F_, Fr), ("S", S_, Sr), ("Cv", C_, Cr)):
            fin = np.isfinite(a_) & np.isfinite(b_)
            if (np.isfinite(a_) != np.isfinite(b_)).any() or (fin.any() and np.abs(a_[fin] - b_[fin]).max() > 1e-12 * max(np.abs(a_[fin]).max(), 1e-300)):
                bad("rerun_differs", "%s changes when run() is called a second time on the same ThermalProperties object (max diff %.3e)" % (
                    nm, np.abs(a_[fin] - b_[fin]).max() if fin.any() else np.nan), quantity=nm, **feat)
                break
        temps2 = np.array(temps, float)[::-1].copy() if len(temps) > 1 else np.array(temps, float) + 3.0
        temps2 = np.abs(temps2 - temps2.min()) + (0.0 if np.min(temps) == 0 else 1.5)  # same length, contains T=0 when the first grid did
        temps2 = np.sort(temps2)
        tp.temperatures = temps2
        tp.run(lang=c["lang"])
        _, Fa, Sa, Ca = [np.array(a, float) for a in tp.thermal_properties]
        fresh = ThermalProperties(StubMesh(freqs, weights, eig), cutoff_frequency=cutoff, pretend_real=c["pretend_real"], band_indices=bi,
                                  is_projection=c["projection"], classical=c["classical"])
        fresh.temperatures = temps2
        fresh.run(lang=c["lang"])
        _, Fb, Sb, Cb = [np.array(a, float) for a in fresh.thermal_properties]
        for nm, a_, b_ in (("F", Fa, Fb), ("S", Sa, Sb), ("Cv", Ca, Cb)):
            fin = np.isfinite(a_) & np.isfinite(b_)
            if a_.shape != b_.shape or (np.isfinite(a_) != np.isfinite(b_)).any() or (fin.any() and np.abs(a_[fin] - b_[fin]).max() > 1e-12 * max(np.abs(b_[fin]).max(), 1e-300)):
                bad("rerun_differs", "%s on a second temperature grid differs between a re-used ThermalProperties object and a fresh one (max diff %.3e)" % (
                    nm, np.abs(a_[fin] - b_[fin]).max() if fin.any() and a_.shape == b_.shape else np.nan), quantity=nm, **feat)
                break
        obs["n_results_reread_after_rerun"] = obs.get("n_results_reread_after_rerun", 0) + 1
        for nm, held_, kept_ in zip(("temperatures", "F", "S", "Cv"), held_first, (T_, F_, S_, C_)):
            h_ = np.array(held_, float)
            if h_.shape != kept_.shape or not np.array_equal(h_, kept_, equal_nan=True):
                bad("handed_out_result_changed", "the %s array handed out after the first run() was changed when the same object ran again on another temperature grid" % nm, quantity=nm, **feat)
                break
        # the temperatures in another order (descending / shuffled, 0 K not first): every value is a function of its own temperature only
        perm = np.random.default_rng(c["seed"] + 5).permutation(len(temps)) if len(temps) > 2 else np.arange(len(temps))[::-1]
        tperm = ThermalProperties(StubMesh(freqs, weights, eig), cutoff_frequency=cutoff, pretend_real=c["pretend_real"], band_indices=bi,
                                  is_projection=c["projection"], classical=c["classical"])
        tperm.temperatures = np.array(temps, float)[perm]
        tperm.run(lang=c["lang"])
        _, Fp, Sp, Cp = [np.array(a, float) for a in tperm.thermal_properties]
        obs["n_permuted_temperatures"] = obs.get("n_permuted_temperatures", 0) + 1
        for nm, a_, b_ in (("F", Fp, F_[perm]), ("S", Sp, S_[perm]), ("Cv", Cp, C_[perm])):
            fin = np.isfinite(a_) & np.isfinite(b_)
            if a_.shape != b_.shape or (np.isfinite(a_) != np.isfinite(b_)).any() or (fin.any() and np.abs(a_[fin] - b_[fin]).max() > 1e-12 * max(np.abs(b_[fin]).max(), 1e-300)):
                k_ = int(np.argmax(np.isfinite(a_) != np.isfinite(b_))) if (np.isfinite(a_) != np.isfinite(b_)).any() else int(np.argmax(np.abs(np.where(fin, a_ - b_, 0))))
                bad("temperature_order", "%s at T=%.6g K is %r when the temperatures are given in another order (position %d of %d), %r in ascending order" % (
                    nm, float(np.array(temps)[perm][k_]), float(a_[k_]), k_, len(a_), float(b_[k_])), quantity=nm, **feat)
                break
        tp.temperatures = temps
        tp.run(lang=c["lang"])
        other = ThermalProperties(StubMesh(freqs, weights, eig), cutoff_frequency=cutoff, pretend_real=c["pretend_real"], band_indices=bi,
                                  is_projection=c["projection"], classical=c["classical"])
        other.temperatures = temps
        other.run(lang="Py" if c["lang"] == "C" else "C")
        _, F2, S2, C2 = [np.array(a, float) for a in other.thermal_properties]
        if c["projection"]:
            # Py path with projection: per-component arrays whose sum over components is the total
            F2, S2, C2 = [a.sum(axis=1) if a.ndim == 2 else a for a in (F2, S2, C2)]
            _, pF, pS, pC = [np.array(a, float) for a in tp._projected_thermal_properties]
            for i, T in enumerate(temps):
                Fo, So, Co, _n = oracle(use_f, weights, T, cutoff, c["classical"], proj=proj)
                ssc = kb_J * 25 * max(1, _n) / weights.sum()
                fsc = (Kb * T + np.abs(use_f).max() * THzToEv) * kJ * 25 * max(1, _n) / weights.sum()
                obs["n_projected_points"] = obs.get("n_projected_points", 0) + 1
                for nm, got, want, sc in (("F", pF[i], Fo, fsc), ("S", pS[i], So, ssc), ("Cv", pC[i], Co, ssc)):
                    if not np.isfinite(got).all():
                        bad("not_finite", "projected %s not finite at T=%.6g" % (nm, T), quantity=nm, T=float(T), projected=True,
                            nan_overflow_regime=bool(T > 0 and np.abs(use_f).max() * THzToEv / (Kb * T) > 700))
                    elif np.abs(got - want).max() > 1e-8 * sc:
                        bad("closed_form_projected", "projected %s differs from the closed form by %.3e at T=%.6g" % (nm, np.abs(got - want).max(), T), quantity=nm, T=float(T))
        nmodes = None
        xmax = 0.0
        for i, T in enumerate(temps):
            Fo, So, Co, nint = oracle(use_f, weights, T, cutoff, c["classical"])
            nmodes = nint
            nw = weights.sum()
            permode = max(nint, 1) / nw
            fs = (Kb * T + np.abs(use_f).max() * THzToEv) * kJ * permode * max(1.0, np.log(max(1.0, Kb * max(T, 1e-300) / (max(np.abs(use_f[use_f != 0]).min() if (use_f != 0).any() else 1.0, 1e-300) * THzToEv))))
            ss = kb_J * permode * max(1.0, 25.0)
            x_here = (np.abs(use_f).max() * THzToEv / (Kb * T)) if T > 0 else 0.0
            xmax = max(xmax, x_here)
            # cancellation in log(1 - exp(-x)) at small x (phonopy's form; the oracle uses log1p): relative error ~ eps / x_min
            if T > 0 and (np.abs(use_f) > 0).any():
                x_min = max(np.abs(use_f[use_f != 0]).min() * THzToEv / (Kb * T), 1e-300)
                canc = 64 * np.finfo(float).eps / x_min
            else:
                canc = 0.0
            fs = fs * (1 + canc / 1e-9)
            ss = ss * (1 + canc / 1e-9)
            f_ = dict(T=float(T), x_max=float(x_here), nan_overflow_regime=bool(x_here > 700), **feat)
            obs["n_points"] = obs.get("n_points", 0) + 1
            for nm, got, want, sc in (("F", F_[i], Fo, fs), ("S", S_[i], So, ss), ("Cv", C_[i], Co, ss)):
                if not np.isfinite(got):
                    bad("not_finite", "%s is %r at T=%.6g (max h nu/kT = %.4g)" % (nm, got, T, x_here), quantity=nm, **f_)
                elif abs(got - want) > 1e-8 * sc:
                    bad("closed_form", "%s=%.12g differs from the closed form %.12g at T=%.6g (scale %.3g)" % (nm, got, want, T, sc), quantity=nm,
                        zpe_cutoff_sensitive=bool(nm == "F" and cutoff is not None and cutoff > 0), **f_)
            for nm, a, b, sc in (("F", F_[i], F2[i], fs), ("S", S_[i], S2[i], ss), ("Cv", C_[i], C2[i], ss)):
                if np.isfinite(a) and np.isfinite(b) and abs(a - b) > 1e-9 * sc:
                    bad("c_vs_py", "%s: C and Py paths differ by %.3e at T=%.6g" % (nm, abs(a - b), T), quantity=nm,
                        zpe_cutoff_sensitive=bool(nm == "F" and cutoff is not None and cutoff > 0), **f_)
            if T == 0:
                if abs(S_[i]) > 0 or abs(C_[i]) > 0:
                    bad("zero_T", "S or C_V non-zero at T=0", **f_)
            floor = 1e-12 * kb_J * max(nint, 1) / nw
            if np.isfinite(S_[i]) and not c["classical"] and S_[i] < -floor:
                bad("negative", "S=%.3e < 0 at T=%.6g" % (S_[i], T), quantity="S", **f_)
            if np.isfinite(C_[i]) and C_[i] < -floor:
                bad("negative", "C_V=%.3e < 0 at T=%.6g" % (C_[i], T), quantity="Cv", **f_)
            if np.isfinite(C_[i]) and C_[i] > kb_J * nint / nw * (1 + 1e-8) + floor:  # 1e-8: round-off of (e^x-1) at x -> 0
                bad("dulong_petit", "C_V=%.12g exceeds k_B per mode (%.12g) at T=%.6g" % (C_[i], kb_J * nint / nw, T), **f_)
        fin = np.isfinite(S_) & np.isfinite(C_)
        order = np.argsort(T_)
        for arr, nm in ((S_, "S"), (C_, "Cv")):
            if c["classical"]:
                continue  # classical: S = k(1 - ln x) jumps from the T=0 convention (0) to large negative values; C_V constant
            a = arr[order][fin[order]]
            d = np.diff(a)
            if (d < -1e-9 * kb_J - 1e-12 * np.abs(a[:-1])).any():
                bad("not_monotone", "%s decreases with T by %.3e" % (nm, d.min()), quantity=nm, **feat)
        # thermodynamic identities by central differences of phonopy's own output (two step sizes)
        if not c["projection"]:
            Tmid = [t for t in temps if t > 0 and np.isfinite(t)]
            if Tmid:
                T0 = float(Tmid[len(Tmid) // 2])
                x0 = np.abs(use_f).max() * THzToEv / (Kb * T0)
                if 1e-3 < x0 < 200:
                    errs = []
                    for h in (2e-3 * T0, 1e-3 * T0):
                        t3 = ThermalProperties(StubMesh(freqs, weights, eig), cutoff_frequency=cutoff, pretend_real=c["pretend_real"], band_indices=bi, classical=c["classical"])
                        t3.temperatures = np.array([T0 - h, T0, T0 + h])
                        t3.run(lang=c["lang"])
                        _, F3, S3, C3 = [np.array(a, float) for a in t3.thermal_properties]
                        eS = abs(-(F3[2] - F3[0]) / (2 * h) * 1000 - S3[1])
                        eC = abs(T0 * (S3[2] - S3[0]) / (2 * h) - C3[1])
                        errs.append((eS, eC))
                    obs["n_identity"] = obs.get("n_identity", 0) + 1
                    sc = kb_J * max(nmodes or 1, 1) / weights.sum() * max(1.0, abs(np.log(x0)))
                    if errs[1][0] > 1e-5 * sc or errs[1][1] > 1e-5 * sc:
                        bad("thermo_identity", "S != -dF/dT (%.3e) or C_V != T dS/dT (%.3e) at T=%.6g (scale %.3e)" % (errs[1][0], errs[1][1], T0, sc), **feat)
        obs["lang_" + c["lang"]] = 1
        obs["meshes_over_4096_qpoints"] = int(nq > 4096)
        obs["max_qpoints_seen"] = [nq]
        obs["classical"] = int(c["classical"])
        obs["x_gt_709_cases"] = int(xmax > 709)
        obs["x_max_seen"] = [float(np.round(np.log10(max(xmax, 1e-300)), 1))]
        nontrivial = bool((nmodes or 0) > 0 and (np.array(temps) > 0).any())
        key = "syn|%d|%s|%s|%s|%s|%s|%s" % (c["seed"], c["lang"], c["classical"], c["cutoff"], c["pretend_real"], c["band_indices"], c["projection"])
        return {"viol": viol, "nontrivial": nontrivial, "key": key, "obs": obs, "evals": len(temps) * 2,
                "sample": {"kind": "synthetic", "nq": nq, "nb": nb, "temps": np.round(temps, 4).tolist()[:6], "freq_range_THz": [float(np.abs(freqs).min()), float(np.abs(freqs).max())],
                           "options": feat, "x_max": xmax}}

    # ---- real mesh through the API
    from vlib.gen import models, setup

    case = {"crystal": c["crystal"], "smat": np.diag([2, 2, 2]).tolist()}
    ph, cd = setup.build_phonopy(case)
    if cd["pmat"] != "P":
        ph, cd = setup.build_phonopy(dict(case, pmat=cd["pmat"]))
    sc = ph.supercell
    fc = models.pair_fc(sc.cell, sc.scaled_positions, sc.symbols, cutoff=4.8)
    if np.abs(fc).max() < 1e-8:
        return {"skip": "no interaction"}
    ph.force_constants = fc
    ph.run_mesh(c["mesh"])
    ph.run_thermal_properties(t_min=0, t_max=900, t_step=75, cutoff_frequency=c["cutoff"], classical=c["classical"])
    tp = ph.get_thermal_properties_dict()
    md = ph.get_mesh_dict()
    for i, T in enumerate(tp["temperatures"]):
        Fo, So, Co, nint = oracle(md["frequencies"], md["weights"], T, c["cutoff"], c["classical"])
        nw = np.sum(md["weights"])
        fs = (Kb * T + np.abs(md["frequencies"]).max() * THzToEv) * kJ * nint / nw * 20
        ss = kb_J * nint / nw * 25
        obs["n_points_real"] = obs.get("n_points_real", 0) + 1
        for nm, got, want, scl in (("F", tp["free_energy"][i], Fo, fs), ("S", tp["entropy"][i], So, ss), ("Cv", tp["heat_capacity"][i], Co, ss)):
            if not np.isfinite(got):
                bad("not_finite", "%s not finite at T=%g through run_thermal_properties" % (nm, T), quantity=nm, T=float(T))
            elif abs(got - want) > 1e-8 * scl:
                bad("closed_form", "run_thermal_properties %s=%.12g vs closed form %.12g at T=%g" % (nm, got, want, T), quantity=nm, T=float(T), lang="C", classical=c["classical"],
                    cutoff=c["cutoff"], zpe_cutoff_sensitive=bool(nm == "F" and c["cutoff"] is not None and c["cutoff"] > 0))
    key = "real|%s|%s|%s|%s" % (c["crystal"]["name"], c["mesh"], c["classical"], c["cutoff"])
    return {"viol": viol, "nontrivial": True, "key": key, "obs": obs, "evals": len(tp["temperatures"]),
            "sample": {"kind": "real", "crystal": c["crystal"], "mesh": c["mesh"], "classical": c["classical"], "cutoff": c["cutoff"]}}


def summarize(results, obs, tier):
    inc = []
    ce = obs.get("contracts", {})
    if ce.get("ThermalProperties.run", 0) == 0:
        inc.append("ThermalProperties.run contract never evaluated")
    for k in ("lang_C", "lang_Py", "classical", "x_gt_709_cases", "n_identity", "n_points_real"):
        if obs.get(k, 0) == 0:
            inc.append("%s never exercised" % k)
    return {"contract_evaluations": ce}, inc
