"""C16 - saving and reloading a calculation reproduces it.

File-boundary round-trip monitor: the in-memory object that was written is the oracle; tolerances are the printed
precisions measured from the written text; the same round trips are repeated in a directory seeded with decoy files
(documented priority order of phonopy.load).
"""

from __future__ import annotations

import copy
import lzma
import os
import re
import shutil
import tempfile

import numpy as np

PROP = "C16"
LEVEL = "exploration"
VARIANTS = ("omp",)
CASE_TIMEOUT = 1200
RULE = ("kind saveload: zoo crystal (extended symbols, magnetic moments, custom masses) x calculator (16 names) x dataset type (1|2|none) x FC in file (full|compact|none) "
        "x NAC x compression x settings dict -> save() -> load() in a clean directory AND in a directory with decoy FORCE_CONSTANTS / force_constants.hdf5 / FORCE_SETS / BORN; "
        "compared: cells, matrices, dataset, FC, NAC, calculator, unit factor, phonon eigenvalues; "
        "kind fileio: write/parse of FORCE_SETS (types 1,2, to_type2), FORCE_CONSTANTS (full, compact+p2s_map), force_constants.hdf5 (bit exact), BORN, dataset type conversion; "
        "kind priority: documented priority list of load() for force sources checked pairwise with distinguishable contents; "
        "non-trivial = file really contains the compared block; distinct = parameter tuple; "
        "additions of rounds 6-8: magnetic cell with zero and negative moments; datasets without forces (both types)")
ASSUMPTIONS = [
    "tolerance of a numeric field = half a unit of its last printed decimal, measured from the written text per block",
    "type-2 datasets cannot be turned into force constants here (symfc/ALM absent): their write/read/convert identity is still decided",
]
MIN_NONTRIVIAL = {"quick": 60, "thorough": 400}
CALCS = ["vasp", "qe", "abinit", "wien2k", "elk", "siesta", "cp2k", "crystal", "dftbp", "turbomole", "aims", "castep", "fleur", "abacus", "lammps", "pwmat", None]


def gen_cases(tier, seed):
    rng = np.random.default_rng([seed, 16])
    names = ["rocksalt", "cscl", "zincblende", "afm_cr", "afm_cr_nc", "tric2", "rutile", "wurtzite", "sc", "fm_fe_tet", "perovskite", "mono_p", "rhomb_bi", "rhomb_hex", "hcp", "afm_nio"]  # (trigonal groups: Hall symbols with a double quote)
    cases = []
    n = 64 if tier == "quick" else 400
    for i in range(n):
        name = names[i % len(names)]
        mag = name in ("afm_cr", "afm_cr_nc", "fm_fe_tet", "afm_nio")  # afm_nio: moments +1/-1 on Ni and exactly 0 on O (a value that is "falsy" in Python)
        cases.append({"kind": "saveload", "crystal": {"name": name, "order": ["asis", "random"][rng.integers(2)], "order_seed": int(rng.integers(100)), "ext_symbols": bool(rng.integers(3) == 0) and not mag},
                      "smat": [np.eye(3, dtype=int).tolist(), np.diag([2, 1, 1]).tolist(), [[1, 1, 0], [-1, 1, 0], [0, 0, 1]]][rng.integers(3)],
                      "pmat": ["P", "centring"][rng.integers(2)], "calculator": CALCS[i % len(CALCS)], "dataset": ["type1", "type1", "type2", "none", "type1_noforces", "type2_noforces"][rng.integers(6)],
                      "fc": ["full", "compact", "none"][rng.integers(3)], "nac": bool(rng.integers(2)) and not mag, "xz": bool(rng.integers(3) == 0),
                      "custom_masses": bool(rng.integers(4) == 0), "mass_setter": bool(rng.integers(4) == 0), "decoys": bool(rng.integers(2)), "settings_bits": int(rng.integers(32)), "settings_form": int(rng.integers(5)), "seed": int(rng.integers(10 ** 6))})
    for i in range(16 if tier == "quick" else 100):
        cases.append({"kind": "fileio", "crystal": {"name": names[i % len(names)]}, "smat": [np.diag([2, 1, 1]).tolist(), [[1, 1, 0], [-1, 1, 0], [0, 0, 1]]][rng.integers(2)],
                      "pmat": ["P", "centring"][rng.integers(2)], "scale": float(10 ** rng.uniform(-8, 7)), "seed": int(rng.integers(10 ** 6))})
    for i in range(6 if tier == "quick" else 24):
        cases.append({"kind": "priority", "crystal": {"name": ["rocksalt", "cscl", "zincblende"][i % 3]}, "seed": int(rng.integers(10 ** 6))})
    return cases


def block_decimals(text):
    """{(top-level block, field): min printed decimals} measured from a phonopy yaml text."""
    out = {}
    top = None
    field = None
    for line in text.splitlines():
        if line and not line.startswith(" ") and not line.startswith("-") and line.rstrip().endswith(":"):
            top = line.strip()[:-1]
            field = None
        m = re.match(r"\s*-?\s*(\w+):", line)
        if m:
            field = m.group(1)
        for tok in re.findall(r"-?\d+\.(\d+)(?:e[-+]\d+)?", line.split("#")[0]):
            key = (top, field)
            out[key] = min(out.get(key, 99), len(tok))
    return out


def tol_of(dec, key, default=15, mag=10.0):
    """Half a unit of the last printed decimal of that block/field (looked up by field name if the block differs) plus a few ulps of the
    values' magnitude (a 15-decimal print of a number > 1 is already at the float64 resolution)."""
    d = dec.get(key)
    if d is None:
        cands = [v for (b_, f_), v in dec.items() if f_ == key[1]]
        d = min(cands) if cands else default
    return 0.5000001 * 10.0 ** (-d) + 8 * np.finfo(float).eps * mag


def cells_equal(a, b, dec, block, bad, what):
    tl = tol_of(dec, (block, "lattice")) if (block, "lattice") in dec else 1e-14
    tp = tol_of(dec, (block, "coordinates"))
    if np.abs(np.array(a.cell) - np.array(b.cell)).max() > tl * 1.01:
        bad("cell_mismatch", "%s lattice differs by %.3e (printed tol %.1e)" % (what, np.abs(np.array(a.cell) - np.array(b.cell)).max(), tl), what=what)
    if len(a) != len(b) or list(a.symbols) != list(b.symbols):
        bad("cell_mismatch", "%s symbols differ: %s vs %s" % (what, list(a.symbols)[:6], list(b.symbols)[:6]), what=what)
        return
    d = np.array(a.scaled_positions) - np.array(b.scaled_positions)
    d -= np.rint(d)
    if np.abs(d).max() > tp * 1.01:
        bad("cell_mismatch", "%s positions differ by %.3e (printed tol %.1e)" % (what, np.abs(d).max(), tp), what=what)
    tm = tol_of(dec, (block, "mass"), 6)
    if np.abs(np.array(a.masses) - np.array(b.masses)).max() > tm * 1.01:
        bad("cell_mismatch", "%s masses differ by %.3e (printed tol %.1e)" % (what, np.abs(np.array(a.masses) - np.array(b.masses)).max(), tm), what=what)
    ma, mb = a.magnetic_moments, b.magnetic_moments
    if (ma is None) != (mb is None):
        bad("cell_mismatch", "%s magnetic moments lost or invented on reload" % what, what=what)
    elif ma is not None:
        tg = tol_of(dec, (block, "magnetic_moment"), 8)
        if np.array(ma).shape != np.array(mb).shape or np.abs(np.array(ma, float) - np.array(mb, float)).max() > tg * 1.01:
            bad("cell_mismatch", "%s magnetic moments differ" % what, what=what)


def run_case(c):
    import phonopy
    from phonopy.interface.calculator import get_default_physical_units
    from vlib.gen import models, nac as nacgen, setup

    viol, obs = [], {}

    def bad(kind, msg, **kw):
        if len(viol) < 10:
            viol.append(dict(kind=kind, msg=msg, **kw))

    rng = np.random.default_rng(c["seed"])
    cwd = os.getcwd()
    tmp = tempfile.mkdtemp(prefix="c16_", dir=cwd)
    try:
        os.chdir(tmp)
        if c["kind"] == "saveload":
            calc = c["calculator"]
            units = get_default_physical_units(calc)
            case = dict(c, pmat=None)
            case.pop("calculator")
            ph, cd = setup.build_phonopy(case, factor=units["factor"], calculator=calc)
            pm = setup.resolve_pmat(cd, c["pmat"])
            masses = None
            if c["custom_masses"]:
                masses = (np.array(ph.unitcell.masses) * rng.uniform(0.8, 1.3, len(ph.unitcell))).tolist()
                # symmetry-equivalent atoms keep equal masses: scale per species instead
                sp = {}
                masses = [float(np.round(sp.setdefault(s, m * 1.0), 6)) for s, m in zip(ph.unitcell.symbols, masses)]
            case2 = dict(case, pmat=pm if pm != "P" else None)
            if masses is not None:
                case2["masses"] = masses
            ph, cd = setup.build_phonopy(case2, factor=units["factor"], calculator=calc)
            if c.get("mass_setter"):
                # masses assigned through the Phonopy.masses setter, one value per primitive atom, atoms of the same species with different values
                # (isotopes on different sublattices): unit cell, supercell and primitive cell must all carry them into the file and back
                pm_ = np.array(ph.primitive.masses) * (1.0 + 0.07 * np.arange(1, len(ph.primitive) + 1) / len(ph.primitive))
                ph.masses = [float(np.round(v, 6)) for v in pm_]
                obs["mass_setter_cases"] = 1
                # consistency of the three cells before saving (harness arithmetic: every atom carries the mass of its primitive image)
                want_s = np.array(ph.primitive.masses)[[ph.primitive.p2p_map[x] for x in ph.primitive.s2p_map]]
                if np.abs(np.array(ph.supercell.masses) - want_s).max() > 1e-12 or np.abs(np.array(ph.unitcell.masses) - np.array(ph.supercell.masses)[ph.supercell.u2s_map]).max() > 1e-12:
                    viol.append(dict(kind="masses_setter", msg="Phonopy.masses setter left unit cell / supercell / primitive cell with inconsistent masses: unit %s, primitive %s" % (
                        np.round(ph.unitcell.masses, 4).tolist()[:6], np.round(ph.primitive.masses, 4).tolist()[:6]), calculator=calc))
            sc = ph.supercell
            fcm = models.pair_fc(sc.cell, sc.scaled_positions, sc.symbols, cutoff=4.6)
            if np.abs(fcm).max() < 1e-8:
                return {"skip": "no interaction"}
            p2s = np.array(ph.primitive.p2s_map)
            if c["dataset"] == "type1":
                ph.generate_displacements(distance=0.02)
                ph.forces = setup.harmonic_forces_type1(ph, fcm)
                if rng.integers(2):
                    ph.supercell_energies = rng.uniform(-10, 0, len(ph.dataset["first_atoms"]))
            elif c["dataset"] == "type2":
                nsnap = 5
                disp = rng.standard_normal((nsnap, len(sc), 3)) * 0.03
                ph.dataset = {"displacements": disp, "forces": -np.einsum("ijab,sjb->sia", fcm, disp)}
            elif c["dataset"] == "type1_noforces":
                ph.generate_displacements(distance=0.02)  # displacements planned, forces not (yet) there: the object's force constants are all it knows
            elif c["dataset"] == "type2_noforces":
                ph.dataset = {"displacements": rng.standard_normal((4, len(sc), 3)) * 0.03}
            c = dict(c)
            dataset_kind = c["dataset"]
            c["dataset_has_forces"] = dataset_kind in ("type1", "type2")
            if dataset_kind.endswith("_noforces"):
                c["dataset"] = dataset_kind.split("_")[0]
                obs["dataset_without_forces"] = 1
            if c["fc"] != "none":
                ph.force_constants = np.array(fcm if c["fc"] == "full" else fcm[p2s], dtype="double", order="C")
            if c["nac"]:
                # the NAC method is part of the saved calculation: Wang | Gonze-Lee | not given (documented default Gonze-Lee)
                nmeth = [None, "wang", "gonze"][int(rng.integers(3))]
                # the NAC unit factor is the user's: the calculator default, a value a few parts per million away from it (the user's own
                # rounding of the constants - the file prints six decimals, which resolves that), or a quite different one (round 9).
                # (chosen from the case seed, not from the stream; values exactly printable with six decimals)
                fbase = units["nac_factor"] if units["nac_factor"] else 1.0
                nfac = round(fbase * [1.0, 1.0 + 5e-6, 1.0 - 4e-6, 1.25][int(c.get("seed", 0)) % 4], 6)
                obs["nac_factor_%s" % ["default", "near_default", "near_default", "other"][int(c.get("seed", 0)) % 4]] = 1
                nacp = nacgen.random_nac(ph, rng, method=nmeth or "wang", factor=nfac)
                if nmeth is None:
                    nacp.pop("method")
                ph.nac_params = nacp
                obs["nac_method_%s" % nmeth] = 1
            keys = ["force_sets", "displacements", "force_constants", "born_effective_charge", "dielectric_constant"]
            settings = {k: bool((c["settings_bits"] >> i) & 1) for i, k in enumerate(keys)}
            if c["fc"] != "none" and rng.integers(2):
                settings["force_constants"] = True
            # the dict handed to save(): all five keys | only some of them | {} | None ("only the settings expected to be updated ... are needed")
            form = ["full", "partial", "partial", "empty", "none"][c.get("settings_form", 0) % 5]
            if form == "partial":
                given = {k: v for k, v in settings.items() if rng.integers(2)}
            elif form == "empty":
                given = {}
            elif form == "none":
                given = None
            else:
                given = dict(settings)
            given_before = None if given is None else dict(given)
            fn = ph.save("params.yaml", settings=given, compression=c["xz"])
            text = (lzma.open(fn, "rt").read() if fn.endswith(".xz") else open(fn).read())
            dec = block_decimals(text)
            # what the file has to contain: the documented defaults of Phonopy.save updated by THIS call's dict (and nothing remembered from earlier calls)
            settings = {"force_sets": True, "displacements": True, "force_constants": False, "born_effective_charge": True, "dielectric_constant": True}
            settings.update(given or {})
            # (the force constants are written by default whenever the file would otherwise not determine them: no dataset, or a dataset without
            # forces - the reloaded object must reproduce the calculation)
            if (given or {}).get("force_constants") is not False and not c["dataset_has_forces"] and c["fc"] != "none":
                settings["force_constants"] = True
            present = {"force_sets": bool(re.search(r"^\s+(forces|force):", text, re.M)), "displacements": bool(re.search(r"^(displacements|dataset):", text, re.M)),
                       "force_constants": "force_constants:" in text, "born_effective_charge": "born_effective_charge:" in text, "dielectric_constant": "dielectric_constant:" in text}
            available = {"force_sets": c["dataset_has_forces"], "displacements": c["dataset"] != "none", "force_constants": c["fc"] != "none",
                         "born_effective_charge": bool(c["nac"]), "dielectric_constant": bool(c["nac"])}
            want = {k: bool(settings[k] and available[k]) for k in settings}
            want["displacements"] = bool((settings["displacements"] or settings["force_sets"]) and available["displacements"])
            obs["settings_form_" + form] = 1
            if given is not None and given != given_before:
                viol.append(dict(kind="save_settings_modified", msg="Phonopy.save modified the caller's settings dict: %r -> %r" % (given_before, given), settings_form=form))
            for k in want:
                if want[k] != present[k]:
                    viol.append(dict(kind="save_content", msg="save(settings=%r) on a calculation with %s: '%s' %s the file (defaults updated by this dict say %s)" % (
                        given_before, ", ".join(a for a in available if available[a]) or "nothing", k, "is missing from" if want[k] else "was written to", "write" if want[k] else "omit"),
                        settings_form=form, field=k, expected_in_file=want[k], calculator=calc))
            if c["decoys"]:
                # hostile environment: files with DIFFERENT content that must not take precedence over what the yaml holds
                from phonopy.file_IO import write_FORCE_CONSTANTS, write_FORCE_SETS, write_force_constants_to_hdf5

                decoy = models.pair_fc(sc.cell, sc.scaled_positions, sc.symbols, cutoff=3.9, r0=1.3) * 1.7
                write_FORCE_CONSTANTS(decoy, filename="FORCE_CONSTANTS")
                write_force_constants_to_hdf5(decoy * 0.5, filename="force_constants.hdf5")
                if c["dataset"] == "type1" and c["dataset_has_forces"]:
                    dsd = copy.deepcopy(ph.dataset)
                    for d in dsd["first_atoms"]:
                        d["forces"] = np.array(d["forces"]) * -2.0
                    write_FORCE_SETS(dsd, filename="FORCE_SETS")
                if ("born_effective_charge:" in text) and ("dielectric_constant:" in text):
                  # (a BORN file in the working directory is the documented LAST resort: it is a decoy only when the yaml itself carries NAC parameters)
                  open("BORN", "w").write("# decoy\n" + ("%13.8f " * 9) % tuple((np.eye(3) * 7.7).flatten()) + "\n" +
                                         "\n".join(("%13.8f " * 9) % tuple((np.eye(3) * (3.3 if i % 2 else -3.3)).flatten()) for i in range(len(ph.primitive))) + "\n")
            has_forces_in_file = settings["force_sets"] and c["dataset_has_forces"]
            has_fc_in_file = ("force_constants:" in text)
            has_nac_in_file = ("born_effective_charge:" in text) and ("dielectric_constant:" in text)
            try:
                ph2 = phonopy.load(fn, is_compact_fc=(c["fc"] == "compact"), symmetrize_fc=False, log_level=0,
                                   produce_fc=(c["dataset"] != "type2"))  # type-2 forces need symfc/ALM (absent here)
            except Exception as e_:
                viol.append(dict(kind="reload_failed", msg="phonopy.load cannot read the file Phonopy.save wrote for %s: %s: %s" % (c["crystal"]["name"], type(e_).__name__, str(e_)[:200]), calculator=calc))
                return {"viol": viol, "nontrivial": True, "key": "sl|%s|%s|reload_failed" % (c["crystal"]["name"], calc), "obs": obs}
            feat = dict(calculator=calc, dataset=c["dataset"], fc=c["fc"], nac=c["nac"], xz=c["xz"], decoys=c["decoys"], settings=settings,
                        forces_in_file=has_forces_in_file, fc_in_file=has_fc_in_file)

            def b(kind, msg, **kw):
                bad(kind, msg, **dict(feat, **kw))

            cells_equal(ph.unitcell, ph2.unitcell, dec, "unit_cell", b, "unit cell")
            cells_equal(ph.supercell, ph2.supercell, dec, "supercell", b, "supercell")
            cells_equal(ph.primitive, ph2.primitive, dec, "primitive_cell", b, "primitive cell")
            if not np.array_equal(np.array(ph.supercell_matrix), np.array(ph2.supercell_matrix)):
                b("matrix_mismatch", "supercell_matrix differs after reload")
            pm1 = np.eye(3) if ph.primitive_matrix is None else np.array(ph.primitive_matrix)
            pm2 = np.eye(3) if ph2.primitive_matrix is None else np.array(ph2.primitive_matrix)
            if np.abs(pm1 - pm2).max() > 1e-12:
                b("matrix_mismatch", "primitive_matrix differs after reload by %.3e" % np.abs(pm1 - pm2).max())
            if (ph2.calculator or None) != (calc if calc != "vasp" else ph2.calculator and "vasp") and (ph2.calculator or "vasp") != (calc or "vasp"):
                b("calculator_mismatch", "calculator %r reloaded as %r" % (calc, ph2.calculator))
            if abs(ph2.unit_conversion_factor - ph.unit_conversion_factor) > 1e-6 * ph.unit_conversion_factor:
                b("factor_mismatch", "unit conversion factor %.10g reloaded as %.10g" % (ph.unit_conversion_factor, ph2.unit_conversion_factor))
            # dataset
            if settings["displacements"] and c["dataset"] != "none" and not (c["decoys"] and not has_forces_in_file):
                d1, d2 = ph.dataset, ph2.dataset
                if d2 is None:
                    b("dataset_lost", "dataset missing after reload")
                elif c["dataset"] == "type1":
                    td = tol_of(dec, ("displacements", "displacement"), 16)
                    tf = tol_of(dec, ("displacements", "forces"), 16)
                    if "first_atoms" not in d2 or len(d1["first_atoms"]) != len(d2["first_atoms"]):
                        b("dataset_mismatch", "type-1 dataset has a different number of displacements after reload")
                    else:
                        for x, y in zip(d1["first_atoms"], d2["first_atoms"]):
                            if x["number"] != y["number"] or np.abs(np.array(x["displacement"]) - np.array(y["displacement"])).max() > td * 1.01:
                                b("dataset_mismatch", "displacement differs after reload")
                                break
                            if has_forces_in_file and ("forces" not in y or np.abs(np.array(x["forces"]) - np.array(y["forces"])).max() > tf * 1.01):
                                b("dataset_mismatch", "forces differ after reload by %s" % (np.abs(np.array(x["forces"]) - np.array(y.get("forces", np.inf))).max() if "forces" in y else "missing"))
                                break
                            if has_forces_in_file and "supercell_energy" in x and abs(x["supercell_energy"] - y.get("supercell_energy", np.inf)) > 1e-7:
                                b("dataset_mismatch", "supercell energy differs after reload")
                                break
                else:
                    td = tol_of(dec, ("dataset", "displacements"), 16)
                    if "displacements" not in d2 or np.abs(np.array(d1["displacements"]) - np.array(d2["displacements"])).max() > td * 1.01:
                        b("dataset_mismatch", "type-2 displacements differ after reload")
                    if has_forces_in_file and ("forces" not in d2 or np.abs(np.array(d1["forces"]) - np.array(d2["forces"])).max() > tol_of(dec, ("dataset", "forces"), 16) * 1.01):
                        b("dataset_mismatch", "type-2 forces differ after reload")
                obs["n_dataset_compared"] = 1
            # force constants stored in the file
            if has_fc_in_file:
                tfc = tol_of(dec, ("force_constants", "elements"), 15, mag=float(np.abs(ph.force_constants).max()))
                f1 = np.array(ph.force_constants)
                f2 = ph2.force_constants
                if f2 is None:
                    b("fc_lost", "force constants missing after reload")
                else:
                    f2 = np.array(f2)
                    if f1.shape != f2.shape:
                        from phonopy.harmonic.force_constants import compact_fc_to_full_fc

                        f1c = f1 if f1.shape[0] == f1.shape[1] else compact_fc_to_full_fc(ph.primitive, f1)
                        f2c = f2 if f2.shape[0] == f2.shape[1] else compact_fc_to_full_fc(ph2.primitive, f2)
                        e = np.abs(f1c - f2c).max()
                    else:
                        e = np.abs(f1 - f2).max()
                    if e > tfc * 1.01:
                        b("fc_mismatch", "force constants differ after reload by %.3e (printed tol %.1e)" % (e, tfc), source_expected="yaml force constants")
                obs["n_fc_compared"] = 1
            # NAC
            if c["nac"] and has_nac_in_file:
                n1, n2 = ph.nac_params, ph2.nac_params
                if n2 is None:
                    b("nac_lost", "NAC parameters missing after reload")
                else:
                    tb = tol_of(dec, ("nac", "born_effective_charge"), 8) if ("nac", "born_effective_charge") in dec else 1e-7
                    if np.abs(np.array(n1["born"]) - np.array(n2["born"])).max() > max(tb, 5.1e-9) or np.abs(np.array(n1["dielectric"]) - np.array(n2["dielectric"])).max() > max(tb, 5.1e-9):
                        b("nac_mismatch", "NAC parameters differ after reload: dZ=%.3e deps=%.3e" % (np.abs(np.array(n1["born"]) - np.array(n2["born"])).max(),
                                                                                                     np.abs(np.array(n1["dielectric"]) - np.array(n2["dielectric"])).max()))
                    if not abs(n1["factor"] - n2.get("factor", np.nan)) <= 0.6e-6 + 1e-12 * abs(n1["factor"]):  # printed with six decimals
                        b("nac_mismatch", "NAC unit factor %.10g reloaded as %r" % (n1["factor"], n2.get("factor")))
                    m1, m2 = (n1.get("method") or "gonze").lower(), (n2.get("method") or "gonze").lower()
                    if m1 != m2:
                        b("nac_mismatch", "NAC method '%s' reloaded as '%s' (the file says %r)" % (m1, m2, re.findall(r"method:\s*\"?(\w+)", text)[:1]), nac_method=m1)
                obs["n_nac_compared"] = 1
            # phonons: only when the file determines the force constants (FC block, or type-1 forces)
            determines = has_fc_in_file or (has_forces_in_file and c["dataset"] == "type1" and settings["displacements"])
            if determines and ph2.force_constants is not None:
                if ph.force_constants is None:
                    ph.produce_force_constants(calculate_full_force_constants=True)
                q = [[0.21, -0.13, 0.37], [0.5, 0, 0]]
                if not (c["nac"] and not has_nac_in_file):
                    ph.run_qpoints(q)
                    ph2.run_qpoints(q)
                    fa, fb = np.array(ph.get_qpoints_dict()["frequencies"]), np.array(ph2.get_qpoints_dict()["frequencies"])
                    la, lb = np.sign(fa) * fa ** 2, np.sign(fb) * fb ** 2
                    rel = 1e-6 if has_fc_in_file else 1e-5
                    obs["n_phonon_compared"] = 1
                    if np.abs(la - lb).max() > rel * np.abs(la).max():
                        b("phonon_mismatch", "squared frequencies differ after reload by %.3e (max %.3e)" % (np.abs(la - lb).max(), np.abs(la).max()),
                          source_expected="yaml force constants" if has_fc_in_file else "yaml forces")
            key = "sl|%s|%s|%s|%s|%s|%s|%s|%s" % (c["crystal"]["name"], c["smat"], calc, c["dataset"], c["fc"], c["nac"], c["xz"], c["decoys"])
            obs["decoy_cases" if c["decoys"] else "clean_cases"] = 1
            obs["calculators"] = [str(calc)]
            return {"viol": viol, "nontrivial": True, "key": key, "obs": obs, "evals": 8,
                    "sample": {"kind": "saveload", "crystal": c["crystal"], "calculator": calc, "dataset": c["dataset"], "fc": c["fc"], "nac": c["nac"], "xz": c["xz"], "decoys": c["decoys"],
                               "settings": settings, "measured_decimals": {"%s.%s" % k: v for k, v in list(dec.items())[:12]}}}

        if c["kind"] == "fileio":
            import h5py
            from phonopy.file_IO import (get_BORN_lines, parse_BORN_from_strings, parse_FORCE_CONSTANTS, parse_FORCE_SETS, read_force_constants_hdf5, write_FORCE_CONSTANTS,
                                         write_FORCE_SETS, write_force_constants_to_hdf5)
            from phonopy.structure.dataset import get_displacements_and_forces

            ph, cd = setup.build_phonopy(dict(c, pmat=None))
            pm = setup.resolve_pmat(cd, c["pmat"])
            if pm != "P":
                ph, cd = setup.build_phonopy(dict(c, pmat=pm))
            sc = ph.supercell
            n = len(sc)
            s = c["scale"]
            fcm = models.pair_fc(sc.cell, sc.scaled_positions, sc.symbols, cutoff=4.6) * s
            p2s = np.array(ph.primitive.p2s_map)
            # FORCE_CONSTANTS full / compact
            for layout in ("full", "compact"):
                A = fcm if layout == "full" else np.array(fcm[p2s])
                write_FORCE_CONSTANTS(A, filename="FC_" + layout, p2s_map=p2s)
                try:
                    B = parse_FORCE_CONSTANTS(filename="FC_" + layout, p2s_map=p2s)
                except Exception as e:
                    bad("force_constants_file_unparsable", "FORCE_CONSTANTS (%s) written by phonopy cannot be parsed back: %r (max |value| %.3e)" % (layout, e, np.abs(A).max()), layout=layout)
                    continue
                obs["n_fileio"] = obs.get("n_fileio", 0) + 1
                if B.shape != A.shape or np.abs(A - B).max() > 0.5000001e-15 + 8 * np.finfo(float).eps * np.abs(A).max():
                    bad("force_constants_file", "FORCE_CONSTANTS (%s) round trip differs by %.3e" % (layout, np.abs(A - B).max() if B.shape == A.shape else np.inf), layout=layout)
                write_force_constants_to_hdf5(A, filename="fc_%s.hdf5" % layout, p2s_map=p2s)
                C = read_force_constants_hdf5(filename="fc_%s.hdf5" % layout, p2s_map=p2s)
                if not np.array_equal(A, C):
                    bad("force_constants_hdf5", "force_constants.hdf5 (%s) is not bit exact" % layout, layout=layout)
            # FORCE_SETS type 1
            ph.generate_displacements(distance=0.02)
            ph.forces = setup.harmonic_forces_type1(ph, fcm)
            ds = ph.dataset
            write_FORCE_SETS(ds, filename="FS1")
            r1 = parse_FORCE_SETS(filename="FS1")
            okk = len(r1["first_atoms"]) == len(ds["first_atoms"]) and r1["natom"] == n
            for x, y in zip(ds["first_atoms"], r1["first_atoms"]):
                okk = okk and x["number"] == y["number"] and np.abs(np.array(x["displacement"]) - y["displacement"]).max() <= 0.51e-16 and np.abs(np.array(x["forces"]) - y["forces"]).max() <= 0.5000001e-10 * 1.01 + 8e-16 * np.abs(np.array(x["forces"])).max()
            obs["n_fileio"] += 1
            if not okk:
                bad("force_sets_file", "FORCE_SETS type 1 round trip differs beyond the printed precision (10 decimals)")
            r1b = parse_FORCE_SETS(filename="FS1", to_type2=True)
            d_, f_ = get_displacements_and_forces(ds)
            if np.abs(np.array(r1b["displacements"]) - d_).max() > 1e-15 or np.abs(np.array(r1b["forces"]) - f_).max() > 0.5000001e-10 * 1.01 + 8e-16 * np.abs(f_).max():
                bad("force_sets_file", "FORCE_SETS type 1 parsed with to_type2=True differs from get_displacements_and_forces()")
            # type-1 -> type-2 conversion keeps everything
            if d_.shape != (len(ds["first_atoms"]), n, 3) or any(np.abs(d_[i, x["number"]] - x["displacement"]).max() > 0 or np.abs(d_[i]).sum() != np.abs(x["displacement"]).sum()
                                                                  or not np.array_equal(f_[i], np.array(x["forces"])) for i, x in enumerate(ds["first_atoms"])):
                bad("dataset_conversion", "type-1 -> type-2 conversion loses or alters data")
            # FORCE_SETS type 2
            disp = rng.standard_normal((4, n, 3)) * 0.03
            ds2 = {"displacements": disp, "forces": -np.einsum("ijab,sjb->sia", fcm, disp) * (1e3 if s > 1e3 else 1.0)}
            write_FORCE_SETS(ds2, filename="FS2")
            try:
                r2 = parse_FORCE_SETS(natom=n, filename="FS2")
            except Exception as e:
                bad("force_constants_file_unparsable", "type-2 FORCE_SETS written by phonopy cannot be parsed back: %r" % (e,))
                r2 = {"displacements": disp, "forces": ds2["forces"]}
            obs["n_fileio"] += 1
            if np.abs(np.array(r2["displacements"]) - disp).max() > 0.5000001e-8 * 1.01 or np.abs(np.array(r2["forces"]) - ds2["forces"]).max() > 0.5000001e-8 * 1.01 + 8e-16 * np.abs(ds2["forces"]).max():
                bad("force_sets_file", "FORCE_SETS type 2 round trip differs beyond the printed precision (8 decimals)")
            # BORN with symmetric tensors
            if cd["name"] in ("rocksalt", "cscl", "zincblende", "tric2", "rutile", "wurtzite", "perovskite"):
                nacp = nacgen.random_nac(ph, rng)
                pr = ph.primitive
                lines = get_BORN_lines(pr, nacp["born"], nacp["dielectric"])
                back = parse_BORN_from_strings("\n".join(lines), pr)
                obs["n_born"] = 1
                if np.abs(back["born"] - nacp["born"]).max() > 1.1e-8 or np.abs(back["dielectric"] - nacp["dielectric"]).max() > 1.1e-8:
                    bad("born_file", "BORN round trip differs: dZ=%.3e deps=%.3e" % (np.abs(back["born"] - nacp["born"]).max(), np.abs(back["dielectric"] - nacp["dielectric"]).max()))
            return {"viol": viol, "nontrivial": True, "key": "io|%s|%s|%s" % (c["crystal"]["name"], c["smat"], c["pmat"]), "obs": obs, "evals": obs["n_fileio"],
                    "sample": {"kind": "fileio", "crystal": c["crystal"], "scale": s, "natom": n}}

        # ---------- documented priority of force sources in load()
        from phonopy.file_IO import write_FORCE_CONSTANTS, write_FORCE_SETS, write_force_constants_to_hdf5

        ph, cd = setup.build_phonopy({"crystal": c["crystal"], "smat": np.eye(3, dtype=int).tolist()})
        pm = cd["pmat"]
        ph, cd = setup.build_phonopy({"crystal": c["crystal"], "smat": np.eye(3, dtype=int).tolist(), "pmat": pm if pm != "P" else None})
        sc = ph.supercell

        def model(k):
            return models.pair_fc(sc.cell, sc.scaled_positions, sc.symbols, cutoff=3.8 + 0.3 * k, r0=1.5 + 0.15 * k) * (1 + 0.2 * k)

        def forces_of(fc):
            return setup.harmonic_forces_type1(ph, fc)

        ph.generate_displacements(distance=0.02)
        # sources (each with its own distinguishable model): 1 fc file, 2 force-sets file, 3 yaml FC, 4 yaml forces, 5 cwd FORCE_CONSTANTS, 6 cwd hdf5, 7 cwd FORCE_SETS
        fcs = {k: model(k) for k in range(1, 8)}
        write_FORCE_CONSTANTS(fcs[1], filename="my_fc")
        ds = copy.deepcopy(ph.dataset)
        for d, f in zip(ds["first_atoms"], forces_of(fcs[2])):
            d["forces"] = f
        write_FORCE_SETS(ds, filename="my_fs")

        def yaml_with(fc=None, forces=None, name="p.yaml"):
            p, _ = setup.build_phonopy({"crystal": c["crystal"], "smat": np.eye(3, dtype=int).tolist(), "pmat": pm if pm != "P" else None})
            p.dataset = copy.deepcopy(ph.dataset)
            if forces is not None:
                p.forces = forces
            if fc is not None:
                p.force_constants = np.array(fc, dtype="double", order="C")
            p.save(name, settings={"force_constants": fc is not None, "force_sets": forces is not None, "displacements": True})
            return name

        def which(phx):
            """Identify by the force constants which source was used."""
            f = np.array(phx.force_constants)
            if f.shape[0] != f.shape[1]:
                from phonopy.harmonic.force_constants import compact_fc_to_full_fc
                f = compact_fc_to_full_fc(phx.primitive, f)
            errs = {k: np.abs(f - v).max() / np.abs(v).max() for k, v in fcs.items()}
            k = min(errs, key=errs.get)
            return k if errs[k] < 1e-6 else None

        def cwd_files(keys):
            for fn in ("FORCE_CONSTANTS", "force_constants.hdf5", "FORCE_SETS"):
                if os.path.exists(fn):
                    os.remove(fn)
            if 5 in keys:
                write_FORCE_CONSTANTS(fcs[5], filename="FORCE_CONSTANTS")
            if 6 in keys:
                write_force_constants_to_hdf5(fcs[6], filename="force_constants.hdf5")
            if 7 in keys:
                d7 = copy.deepcopy(ph.dataset)
                for d, f in zip(d7["first_atoms"], forces_of(fcs[7])):
                    d["forces"] = f
                write_FORCE_SETS(d7, filename="FORCE_SETS")

        import itertools

        tested = 0
        for a, bsrc in itertools.combinations(range(1, 8), 2):  # a has the higher documented priority
            cwd_files({a, bsrc})
            kw = {}
            yfc = fcs[3] if 3 in (a, bsrc) else None
            yfo = forces_of(fcs[4]) if 4 in (a, bsrc) else None
            yn = yaml_with(yfc, yfo)
            if 1 in (a, bsrc):
                kw["force_constants_filename"] = "my_fc"
            if 2 in (a, bsrc):
                kw["force_sets_filename"] = "my_fs"
            try:
                got = phonopy.load(yn, symmetrize_fc=False, is_compact_fc=False, **kw)
                used = which(got) if got.force_constants is not None else None
            except Exception as e:
                used = "exception %r" % (e,)
            tested += 1
            if (a, bsrc) == (3, 4):
                # documented: both stored, FC taken from the yaml, not re-produced
                pass
            if used != a:
                bad("load_priority", "load(): sources %d and %d present, documented priority says %d, used %r" % (a, bsrc, a, used), higher=a, lower=bsrc, used=str(used),
                    cwd_file_overrides=bool(used in (5, 6, 7)))
        obs["n_priority_pairs"] = tested
        return {"viol": viol, "nontrivial": True, "key": "prio|%s" % c["crystal"]["name"], "obs": obs, "evals": tested,
                "sample": {"kind": "priority", "crystal": c["crystal"], "pairs": tested}}
    finally:
        os.chdir(cwd)
        shutil.rmtree(tmp, ignore_errors=True)


def summarize(results, obs, tier):
    inc = []
    for k in ("clean_cases", "decoy_cases", "n_fc_compared", "n_dataset_compared", "n_nac_compared", "n_phonon_compared", "n_fileio", "n_born", "n_priority_pairs"):
        if obs.get(k, 0) == 0:
            inc.append("%s never exercised" % k)
    return {"calculators_seen": sorted(set(obs.get("calculators", [])))}, inc
