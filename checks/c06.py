"""C06 - force constants <-> dynamical matrices at commensurate points is lossless.

Contract on get_commensurate_points* (integer lattice arithmetic) + round-trip monitor FC -> D(q_c) -> FC (C and Py,
full and compact) + ph2ph re-expression monitor.
"""

from __future__ import annotations

import numpy as np

PROP = "C06"
LEVEL = "exploration"
VARIANTS = ("omp",)
CASE_TIMEOUT = 1200
RULE = ("kinds: (a) commensurate points of integer matrices (|entries|<=4, det<=48) checked by integer arithmetic: count=|det|, S^T q integral, distinct mod 1; "
        "(b) round trip FC -> run_qpoints(commensurate, with_dynamical_matrices) -> DynmatToForceConstants(lang C|Py, full|compact) on random "
        "translation-periodic, permutation-symmetric arrays and pair-model constants over zoo supercells incl. non-diagonal ones with Wigner-Seitz-boundary multiplicities; "
        "(c) ph2ph to integer-multiple and non-multiple target supercells (with and without NAC): D unchanged at q commensurate with both; "
        "non-trivial = det>1 (a), supercell multiplicity N>1 and max|FC|>0 (b,c); distinct = full parameter tuple; "
        "additions of rounds 6-8: dynamical matrices handed over as eigen-solutions (numpy's / phonopy's own, negative eigenvalues plentiful); force-constant memory layouts; ph2ph of objects built with the SNF builder / sparse vectors, two more non-diagonal bases")
ASSUMPTIONS = [
    "the round trip is claimed for permutation-symmetric periodic arrays (D(q) is Hermitised by phonopy, so other arrays are not representable)",
    "ph2ph: only q commensurate with BOTH supercells are compared (a non-multiple target cannot represent the other points)",
]
MIN_NONTRIVIAL = {"quick": 150, "thorough": 800}


def gen_cases(tier, seed):
    from vlib.gen import crystals, setup

    rng = np.random.default_rng([seed, 6])
    cases = []
    for b in range(8 if tier == "quick" else 40):
        mats = []
        while len(mats) < 40:
            m = rng.integers(-4, 5, size=(3, 3))
            d = int(round(np.linalg.det(m)))
            if 0 < d <= 48:
                mats.append(m.tolist())
        mats += [np.diag(rng.integers(1, 5, 3)).tolist() for _ in range(5)]
        cases.append({"kind": "points", "mats": mats})
    per = 5 if tier == "quick" else 25
    max_atoms = 48 if tier == "quick" else 96
    for name in crystals.ZOO:
        nu = crystals.natoms(name)
        smats = setup.smat_list(max(1, max_atoms // nu), rng=rng, n_random=3)
        smats = [m for m in smats if setup.det3(m) > 1] or smats
        for k in range(per):
            sm = smats[rng.integers(len(smats))]
            cases.append({"kind": "roundtrip", "crystal": {"name": name, "order": ["asis", "interleave", "random"][rng.integers(3)], "order_seed": int(rng.integers(1000)),
                                                           "int_shift": bool(rng.integers(2))},
                          "smat": sm, "pmat": ["P", "centring"][rng.integers(2)], "model": ["random", "pair"][rng.integers(2)],
                          "full": bool(rng.integers(2)), "store_dense_svecs": bool(rng.integers(2)), "lang": ["C", "Py"][rng.integers(2)],
                          "seed": int(rng.integers(10 ** 6)), "_cost": nu * setup.det3(sm),
                          # the compiled transform has a serial and an OpenMP branch; the result must not depend on the branch or on the number of threads
                          "use_openmp": bool(rng.integers(2)), "_threads": [1, 2, 3, 5, 7, 16][int(rng.integers(6))],
                          # how the dynamical matrices reach the transformer: directly, or as eigen-solutions (the first usage in the class docstring and what
                          # RandomDisplacements.run_d2f does); random periodic constants are indefinite, so negative eigenvalues (unstable modes) are plentiful
                          "input": ["dm", "eig_numpy", "eig_phonopy"][int(rng.integers(3))]})
    small = [n for n in crystals.SMALL if crystals.natoms(n) <= 6]
    for k in range(24 if tier == "quick" else 160):
        name = small[rng.integers(len(small))]
        base = [np.diag([1, 1, 1]).tolist(), np.diag([2, 1, 1]).tolist(), np.diag([2, 2, 1]).tolist(), [[1, 1, 0], [-1, 1, 0], [0, 0, 1]], np.diag([1, 1, 2]).tolist(),
                [[2, 1, 0], [0, 2, 0], [0, 1, 2]], [[1, 0, 1], [0, 2, 1], [0, 0, 2]]][rng.integers(7)]
        if rng.integers(3):
            K = np.diag(rng.integers(1, 3, 3))
            if rng.integers(2):
                K = np.array([[1, 1, 0], [0, 1, 0], [0, 0, 2]])
            target = (np.array(base) @ K).tolist()
            multiple = True
        else:
            target = [np.diag([3, 1, 1]).tolist(), np.diag([1, 3, 2]).tolist(), [[2, 1, 0], [0, 1, 0], [0, 0, 1]]][rng.integers(3)]
            multiple = False
        if crystals.natoms(name) * setup.det3(target) > 96:
            target = base
            multiple = True
        cases.append({"kind": "ph2ph", "crystal": {"name": name, "order": "random", "order_seed": int(rng.integers(1000))}, "smat": base, "target": target,
                      "multiple": multiple, "pmat": ["P", "centring"][rng.integers(2)], "full": bool(rng.integers(2)), "nac": [None, None, "wang", "gonze"][rng.integers(4)], "with_nac": bool(rng.integers(3) != 0),
                      "_threads": [1, 2, 3, 5, 7, 16][int(rng.integers(6))],
                      # constructor options of the original object (the re-expressed object must be built the same way, or at least hold constants that
                      # belong to ITS atom order): Smith-normal-form supercell builder, sparse shortest vectors
                      "use_SNF_supercell": bool(rng.integers(2)), "store_dense_svecs": bool(rng.integers(2)),
                      "seed": int(rng.integers(10 ** 6)), "_cost": 3 * crystals.natoms(name) * setup.det3(target)})
    return cases


def run_case(c):
    from vlib.gen import models, setup
    from vlib.monitors import contracts as K

    viol, keys, obs = [], [], {}
    if c["kind"] == "points":
        from phonopy.harmonic.dynmat_to_fc import get_commensurate_points, get_commensurate_points_in_integers

        for S in c["mats"]:
            q = get_commensurate_points(S)
            qi = get_commensurate_points_in_integers(S)
            obs["points_calls"] = obs.get("points_calls", 0) + 2
            det = int(round(np.linalg.det(np.array(S))))
            # integers representation / det must be the same SET of points mod 1 as the float representation
            a = sorted(map(tuple, np.rint((np.array(q) % 1.0) * det).astype(int) % det))
            b = sorted(map(tuple, np.array(qi) % det))
            if len(a) == len(b) == det and a != b:
                viol.append({"kind": "commensurate_points", "msg": "integer and fractional commensurate points describe different sets", "matrix": S})
            if det > 1:
                keys.append("pts|%s" % (S,))
        # contract violations are drained by the worker
        return {"viol": viol, "nontrivial": bool(keys), "keys": keys, "evals": 2 * len(c["mats"]), "obs": obs, "sample": {"kind": "points", "first": c["mats"][:3]}}

    ph, cd = setup.build_phonopy(dict(c, pmat=None))
    pm = setup.resolve_pmat(cd, c["pmat"])
    if pm != "P":
        ph, cd = setup.build_phonopy(dict(c, pmat=pm))
    sc, pr = ph.supercell, ph.primitive
    rng = np.random.default_rng(c["seed"])
    N = len(sc) // len(pr)
    p2s = np.array(pr.p2s_map)
    if c["kind"] == "roundtrip":
        from phonopy.harmonic.dynmat_to_fc import DynmatToForceConstants

        if c["model"] == "random":
            fc = models.random_periodic_fc(sc.cell, sc.scaled_positions, pr.cell, rng, permutation_symmetric=True, asr=bool(rng.integers(2)))
        else:
            fc = models.pair_fc(sc.cell, sc.scaled_positions, sc.symbols, cutoff=rng.uniform(3.0, 6.5))
        scale = np.abs(fc).max()
        # (the constants as the caller may hold them: C order, Fortran order - owning its data -, strided window, view ...: same numbers)
        from vlib.gen.layout import ARRAY_KINDS, relayout as _rl

        fc_in, fckind = _rl(fc if rng.integers(2) else fc[p2s], rng, kind=ARRAY_KINDS[int(rng.integers(len(ARRAY_KINDS)))])
        obs["fclayout_" + fckind] = 1
        ph.force_constants = fc_in
        d2f = DynmatToForceConstants(pr, sc, is_full_fc=c["full"], use_openmp=bool(c.get("use_openmp", False)))
        obs["roundtrip_openmp_branch" if c.get("use_openmp") else "roundtrip_serial_branch"] = 1
        obs["threads_%d" % c.get("_threads", 2)] = 1
        cp = d2f.commensurate_points
        ph.run_qpoints(cp, with_dynamical_matrices=True)
        dms = np.array(ph.get_qpoints_dict()["dynamical_matrices"])
        route = c.get("input", "dm")
        if route == "dm":
            d2f.dynamical_matrices = dms
        else:
            if route == "eig_numpy":
                sol = [np.linalg.eigh(d_) for d_ in dms]
                ev, evec = np.array([s_[0] for s_ in sol]), np.array([s_[1] for s_ in sol])
            else:
                ph.run_qpoints(cp, with_eigenvectors=True)
                qd = ph.get_qpoints_dict()
                fr = np.array(qd["frequencies"]) / ph.unit_conversion_factor
                ev, evec = np.sign(fr) * fr ** 2, np.array(qd["eigenvectors"])
            obs["roundtrip_negative_eigenvalues"] = int((ev < -1e-8 * max(np.abs(ev).max(), 1e-300)).sum())
            d2f.create_dynamical_matrices(np.array(ev, dtype="double", order="C"), np.array(evec, dtype="c16", order="C"))
        obs["roundtrip_input_" + route] = 1
        d2f.run(lang=c["lang"])
        got = d2f.force_constants
        want = fc if c["full"] else fc[p2s]
        err = float(np.abs(got - want).max()) if got.shape == want.shape else float("inf")
        obs["roundtrip_" + c["lang"]] = 1
        obs["roundtrip_full" if c["full"] else "roundtrip_compact"] = 1
        if not err <= 1e-9 * max(scale, 1e-300):
            viol.append({"kind": "roundtrip", "msg": "FC -> D(q_c) -> FC differs by %.3e (scale %.3e), dynamical matrices handed over as %s" % (err, scale, route), "lang": c["lang"], "full": c["full"], "model": c["model"], "N": N, "input": route})
        multi = pr.get_smallest_vectors()[1]
        mm = int(np.max(multi[..., 0])) if multi.ndim == 3 else int(np.max(multi))
        obs["ws_multiplicity_gt1"] = int(mm > 1)
        nontrivial = bool(N > 1 and scale > 0)
        key = "rt|%s|%s|%s|%s|%s|%s|%s|%s" % (c["crystal"]["name"], c["crystal"]["order"], c["smat"], c["pmat"], c["model"], c["full"], c["lang"], c["store_dense_svecs"])
        return {"viol": viol, "nontrivial": nontrivial, "key": key, "obs": obs, "maxerr": err / scale if scale else None,
                "sample": {"kind": "roundtrip", "crystal": c["crystal"], "smat": c["smat"], "pmat": pm, "lang": c["lang"], "full": c["full"], "N": N, "rel_err": err / scale if scale else None}}

    # ph2ph
    from vlib.gen import nac as nacgen

    fc = models.pair_fc(sc.cell, sc.scaled_positions, sc.symbols, cutoff=rng.uniform(3.0, 5.5))
    if np.abs(fc).max() < 1e-8:
        return {"skip": "no interaction inside range", "nontrivial": False}
    from vlib.gen.layout import ARRAY_KINDS, relayout as _rl

    fc_in, fckind = _rl(fc if c["full"] else fc[p2s], rng, kind=ARRAY_KINDS[int(rng.integers(len(ARRAY_KINDS)))])
    obs["fclayout_" + fckind] = 1
    ph.force_constants = fc_in
    if c["nac"]:
        ph.nac_params = nacgen.random_nac(ph, rng, method=c["nac"])
    with_nac = bool(c["nac"]) and bool(c.get("with_nac", True))
    ph2 = ph.ph2ph(c["target"], with_nac=with_nac)
    obs["ph2ph_with_nac_%s" % with_nac] = 1
    obs["ph2ph_snf_builder" if c.get("use_SNF_supercell") else "ph2ph_classic_builder"] = 1
    # q commensurate with both supercells (harness arithmetic): M1 q and M2 q integral
    M1 = np.rint(sc.cell @ np.linalg.inv(pr.cell)).astype(int)
    M2 = np.rint(ph2.supercell.cell @ np.linalg.inv(ph2.primitive.cell)).astype(int)
    from checks.c02 import commensurate_q

    both = [q for q in commensurate_q(M1) if np.abs(M2 @ q - np.rint(M2 @ q)).max() < 1e-8]
    obs["ph2ph_common_q"] = len(both)
    obs["ph2ph_multiple"] = int(c["multiple"])
    obs["ph2ph_nac_" + str(c["nac"])] = 1
    if c["multiple"] and len(both) != len(sc) // len(pr):
        return {"error": "harness: target is not a multiple although flagged so"}
    ph_plain = ph
    if c["nac"]:
        # reference: the original object WITHOUT NAC (at commensurate q != 0 the correction must vanish anyway; at Gamma no direction => none)
        ph_plain, _ = setup.build_phonopy(dict(c, pmat=pm))
        ph_plain.force_constants = np.array(ph.force_constants)
    worst = 0.0
    scale = np.abs(fc).max() / float(np.min(pr.masses))
    if c["nac"] and not with_nac:
        # NAC parameters present but not asked for: the result is the plain re-expression, i.e. what the same object without NAC parameters gives
        ref2 = ph_plain.ph2ph(c["target"])
        f2, fr = np.array(ph2.force_constants), np.array(ref2.force_constants)
        obs["ph2ph_plain_on_nac_object"] = 1
        if ph2.nac_params is not None:
            viol.append({"kind": "ph2ph", "msg": "ph2ph(with_nac=False) returned an object that carries NAC parameters", "nac": c["nac"], "multiple": c["multiple"], "full": c["full"], "with_nac": False})
        if f2.shape != fr.shape or not np.abs(f2 - fr).max() <= 1e-10 * np.abs(fr).max():
            viol.append({"kind": "ph2ph", "msg": "ph2ph(with_nac=False) on an object with %s NAC parameters differs from the re-expression of the same object without them by %.3e (max |fc| %.3e)" % (
                c["nac"], np.abs(f2 - fr).max() if f2.shape == fr.shape else np.inf, np.abs(fr).max()), "nac": c["nac"], "multiple": c["multiple"], "full": c["full"], "with_nac": False})
    for q in both:
        tol = 1e-9 * scale
        if c["nac"] == "gonze" and with_nac:
            # Gonze-Lee's reciprocal sum is not periodic in G: exact only at the first-BZ representative that was used to build it;
            # at the other (tied or outside) representatives it holds to the reciprocal-sum precision only.
            q, nties = nacgen.bz_reduce(q, pr.cell, near=True)
            dds = nacgen.dd_scale(pr, ph.nac_params)
            # ph2ph itself evaluates the Gonze-Lee matrices at commensurate points in [0,1) (not BZ-reduced), so even for a unique
            # BZ representative the interpolated constants carry the reciprocal-sum error: loose tolerance in all Gonze-Lee cases.
            tol = nacgen.gl_offzone_tolerance(pr, ph.nac_params, scale)[0]
            obs["gonze_q_unique_bz" if nties == 1 else "gonze_q_tied_bz"] = obs.get("gonze_q_unique_bz" if nties == 1 else "gonze_q_tied_bz", 0) + 1
        ph_plain.dynamical_matrix.run(q)
        D1 = np.array(ph_plain.dynamical_matrix.dynamical_matrix)
        ph2.dynamical_matrix.run(q)
        D2 = np.array(ph2.dynamical_matrix.dynamical_matrix)
        e = float(np.abs(D1 - D2).max())
        worst = max(worst, e)
        if not e <= tol:
            viol.append({"kind": "ph2ph", "msg": "ph2ph changed D(q) by %.3e (tol %.3e) at common commensurate q=%s" % (e, tol, np.round(q, 4).tolist()),
                         "nac": c["nac"], "multiple": c["multiple"], "full": c["full"]})
            break
    key = "p2p|%s|%s|%s|%s|%s|%s" % (c["crystal"]["name"], c["smat"], c["target"], c["pmat"], c["full"], c["nac"])
    return {"viol": viol, "nontrivial": bool(len(both) > 1 or not c["multiple"]), "key": key, "obs": obs, "evals": len(both),
            "sample": {"kind": "ph2ph", "crystal": c["crystal"], "smat": c["smat"], "target": c["target"], "nac": c["nac"], "n_common_q": len(both), "max_abs_diff": worst}}


def summarize(results, obs, tier):
    inc = []
    ce = obs.get("contracts", {})
    if ce.get("get_commensurate_points", 0) == 0 or ce.get("get_commensurate_points_in_integers", 0) == 0:
        inc.append("commensurate-point contracts never evaluated")
    for k in ("roundtrip_C", "roundtrip_Py", "roundtrip_full", "roundtrip_compact", "ws_multiplicity_gt1", "ph2ph_multiple"):
        if obs.get(k, 0) == 0:
            inc.append("%s never exercised" % k)
    errs = [r["maxerr"] for r in results if r.get("maxerr") is not None]
    return {"contract_evaluations": ce, "roundtrip_max_rel_err": max(errs) if errs else None}, inc
