// Minimal libgomp replacement (GOMP_parallel + omp_get_*), pthread based, so that ThreadSanitizer sees fork/join as
// pthread_create/pthread_join (libgomp's futex barriers are invisible to TSan and produce false races).
// gcc lowers every pragma of phonopy's c/*.c to exactly these four symbols.
// Extras for schedule diversity: MINIGOMP_PERM_SEED permutes thread ids (which OS thread runs which static chunk, start order),
// MINIGOMP_YIELD=n makes each worker yield up to n times before starting. Counters are exported for the evidence.
#include <pthread.h>
#include <sched.h>
#include <stdio.h>
#include <stdlib.h>

static __thread int tl_tid = 0;
static __thread int tl_nth = 1;
static unsigned long long calls = 0, regions_mt = 0, max_threads_seen = 0;
static unsigned long long rng_state = 88172645463325252ULL;

static int cfg_threads(void) {
    const char *s = getenv("OMP_NUM_THREADS");
    int n = s ? atoi(s) : 4;
    return n < 1 ? 1 : n;
}
static unsigned long long next_rand(void) {
    unsigned long long x = __atomic_load_n(&rng_state, __ATOMIC_RELAXED);
    x ^= x << 13; x ^= x >> 7; x ^= x << 17;
    __atomic_store_n(&rng_state, x, __ATOMIC_RELAXED);
    return x;
}
int omp_get_max_threads(void) { return cfg_threads(); }
int omp_get_num_threads(void) { return tl_nth; }
int omp_get_thread_num(void) { return tl_tid; }
void omp_set_num_threads(int n) { char b[32]; snprintf(b, sizeof b, "%d", n < 1 ? 1 : n); setenv("OMP_NUM_THREADS", b, 1); }

struct job { void (*fn)(void *); void *data; int tid, nth, yields; };

static void *runner(void *p) {
    struct job *j = p;
    tl_tid = j->tid; tl_nth = j->nth;
    for (int i = 0; i < j->yields; i++) sched_yield();
    j->fn(j->data);
    tl_tid = 0; tl_nth = 1;
    return NULL;
}

void GOMP_parallel(void (*fn)(void *), void *data, unsigned num_threads, unsigned flags) {
    (void)flags;
    int n = num_threads ? (int)num_threads : cfg_threads();
    __atomic_add_fetch(&calls, 1, __ATOMIC_RELAXED);
    if (tl_nth > 1 || n == 1) {  // nested or single: run inline
        int st = tl_tid, sn = tl_nth; tl_tid = 0; tl_nth = 1; fn(data); tl_tid = st; tl_nth = sn; return;
    }
    __atomic_add_fetch(&regions_mt, 1, __ATOMIC_RELAXED);
    if (n > 256) n = 256;
    if ((unsigned long long)n > max_threads_seen) max_threads_seen = n;
    pthread_t th[256]; struct job jb[256]; int perm[256];
    for (int i = 0; i < n; i++) perm[i] = i;
    const char *ps = getenv("MINIGOMP_PERM_SEED");
    if (ps) {
        static int seeded = 0;
        if (!seeded) { rng_state ^= (unsigned long long)atoll(ps) * 2654435761ULL + 1; seeded = 1; }
        for (int i = n - 1; i > 0; i--) { int k = (int)(next_rand() % (unsigned)(i + 1)); int t = perm[i]; perm[i] = perm[k]; perm[k] = t; }
    }
    const char *ys = getenv("MINIGOMP_YIELD");
    int ymax = ys ? atoi(ys) : 0;
    for (int i = 1; i < n; i++) {
        jb[i] = (struct job){fn, data, perm[i], n, ymax > 0 ? (int)(next_rand() % (unsigned)(ymax + 1)) : 0};
        pthread_create(&th[i], NULL, runner, &jb[i]);
    }
    int st = tl_tid, sn = tl_nth; tl_tid = perm[0]; tl_nth = n;
    if (ymax > 0) { int k = (int)(next_rand() % (unsigned)(ymax + 1)); for (int i = 0; i < k; i++) sched_yield(); }
    fn(data);
    tl_tid = st; tl_nth = sn;
    for (int i = 1; i < n; i++) pthread_join(th[i], NULL);
}
unsigned long long minigomp_calls(void) { return calls; }
unsigned long long minigomp_regions(void) { return regions_mt; }
unsigned long long minigomp_max_threads(void) { return max_threads_seen; }
