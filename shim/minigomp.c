// Minimal libgomp replacement (GOMP_parallel + omp_get_*), pthread based, so that
// ThreadSanitizer sees fork/join as pthread_create/pthread_join.
#include <pthread.h>
#include <stdlib.h>
#include <stdio.h>
#include <sched.h>
static __thread int tl_tid = 0;
static __thread int tl_nth = 1;
static int cfg_threads(void){ const char*s=getenv("OMP_NUM_THREADS"); int n = s?atoi(s):4; return n<1?1:n; }
int omp_get_max_threads(void){ return cfg_threads(); }
int omp_get_num_threads(void){ return tl_nth; }
int omp_get_thread_num(void){ return tl_tid; }
struct job { void (*fn)(void*); void *data; int tid, nth; };
static void *runner(void *p){ struct job *j = p; tl_tid=j->tid; tl_nth=j->nth; if (getenv("MINIGOMP_YIELD")) sched_yield(); j->fn(j->data); tl_tid=0; tl_nth=1; return NULL; }
static unsigned long long calls=0, regions_mt=0;
void GOMP_parallel(void (*fn)(void*), void *data, unsigned num_threads, unsigned flags){
  (void)flags; int n = num_threads? (int)num_threads : cfg_threads();
  __atomic_add_fetch(&calls,1,__ATOMIC_RELAXED);
  if (tl_nth>1 || n==1){ int st=tl_tid, sn=tl_nth; tl_tid=0; tl_nth=1; fn(data); tl_tid=st; tl_nth=sn; return; }
  __atomic_add_fetch(&regions_mt,1,__ATOMIC_RELAXED);
  pthread_t th[256]; struct job jb[256]; if(n>256)n=256;
  for(int i=1;i<n;i++){ jb[i]=(struct job){fn,data,i,n}; pthread_create(&th[i],NULL,runner,&jb[i]); }
  int st=tl_tid, sn=tl_nth; tl_tid=0; tl_nth=n; fn(data); tl_tid=st; tl_nth=sn;
  for(int i=1;i<n;i++) pthread_join(th[i],NULL);
}
unsigned long long minigomp_calls(void){return calls;} unsigned long long minigomp_regions(void){return regions_mt;}
