// Minimal nanobind-compatible shim over the CPython C-API (buffer protocol).
// Supports exactly what c/_phonopy.cpp uses: nb::ndarray<> (data(), shape(i), ndim()),
// integral / floating / const char* / bool scalars, NB_MODULE + m.def(name, fnptr).
#pragma once
#define PY_SSIZE_T_CLEAN
#include <Python.h>
#include <cstdint>
#include <cstddef>
#include <string>
#include <tuple>
#include <type_traits>
#include <utility>
#include <vector>
#include <stdexcept>

namespace nanobind {

struct cast_error : std::runtime_error { using std::runtime_error::runtime_error; };

// optional observer hook: called for every ndarray argument of every call
typedef void (*nbshim_observer_t)(const char *fn, int argi, Py_buffer *view, PyObject *obj);
inline nbshim_observer_t &nbshim_observer() { static nbshim_observer_t o = nullptr; return o; }

template <typename... Ts> class ndarray {
public:
    ndarray() : m_has(false) {}
    ndarray(const ndarray &) = delete;
    ndarray(ndarray &&o) noexcept : m_view(o.m_view), m_has(o.m_has) { o.m_has = false; }
    ~ndarray() { if (m_has) PyBuffer_Release(&m_view); }
    void acquire(PyObject *o, bool writable_first) {
        int flags = PyBUF_STRIDES | PyBUF_FORMAT;
        if (PyObject_GetBuffer(o, &m_view, flags | PyBUF_WRITABLE) != 0) {
            PyErr_Clear();
            if (PyObject_GetBuffer(o, &m_view, flags) != 0) { PyErr_Clear(); throw cast_error("ndarray: object does not support the buffer protocol"); }
        }
        m_has = true;
    }
    void *data() const { return m_view.buf; }
    size_t ndim() const { return (size_t)m_view.ndim; }
    size_t shape(size_t i) const { return (size_t)m_view.shape[i]; }
    int64_t stride(size_t i) const { return (int64_t)(m_view.strides[i] / m_view.itemsize); }
    size_t size() const { size_t n = 1; for (int i = 0; i < m_view.ndim; i++) n *= (size_t)m_view.shape[i]; return n; }
    size_t itemsize() const { return (size_t)m_view.itemsize; }
    Py_buffer *view() { return &m_view; }
private:
    Py_buffer m_view;
    bool m_has;
};

namespace detail {
template <typename T, typename = void> struct caster;

template <typename... Ts> struct caster<ndarray<Ts...>> {
    using holder = ndarray<Ts...>;
    static void load(PyObject *o, holder &h, const char *fn, int argi) {
        h.acquire(o, true);
        if (nbshim_observer()) nbshim_observer()(fn, argi, h.view(), o);
    }
    static ndarray<Ts...> get(holder &h) { return std::move(h); }
};
template <typename T> struct caster<T, std::enable_if_t<std::is_integral_v<T> && !std::is_same_v<T, bool>>> {
    using holder = T;
    static void load(PyObject *o, holder &h, const char *, int) {
        if (PyFloat_Check(o)) throw cast_error("integer argument expected, got float");
        long long v = PyLong_AsLongLong(o);
        if (v == -1 && PyErr_Occurred()) { PyErr_Clear(); throw cast_error("integer argument expected"); }
        if ((long long)(T)v != v) throw cast_error("integer out of range");
        h = (T)v;
    }
    static T get(holder &h) { return h; }
};
template <> struct caster<bool> {
    using holder = bool;
    static void load(PyObject *o, holder &h, const char *, int) {
        if (o == Py_True) h = true; else if (o == Py_False) h = false; else throw cast_error("bool expected");
    }
    static bool get(holder &h) { return h; }
};
template <typename T> struct caster<T, std::enable_if_t<std::is_floating_point_v<T>>> {
    using holder = T;
    static void load(PyObject *o, holder &h, const char *, int) {
        double v = PyFloat_AsDouble(o);
        if (v == -1.0 && PyErr_Occurred()) { PyErr_Clear(); throw cast_error("float expected"); }
        h = (T)v;
    }
    static T get(holder &h) { return h; }
};
template <> struct caster<const char *> {
    using holder = std::string;
    static void load(PyObject *o, holder &h, const char *, int) {
        const char *s = PyUnicode_AsUTF8(o);
        if (!s) { PyErr_Clear(); throw cast_error("str expected"); }
        h = s;
    }
    static const char *get(holder &h) { return h.c_str(); }
};

inline PyObject *to_py(bool v) { return PyBool_FromLong(v); }
template <typename T, std::enable_if_t<std::is_integral_v<T> && !std::is_same_v<T, bool>, int> = 0>
inline PyObject *to_py(T v) { return PyLong_FromLongLong((long long)v); }
template <typename T, std::enable_if_t<std::is_floating_point_v<T>, int> = 0>
inline PyObject *to_py(T v) { return PyFloat_FromDouble((double)v); }

struct fn_record { const char *name; PyObject *(*invoke)(fn_record *, PyObject *const *, Py_ssize_t); void *fptr; PyMethodDef def; };

template <typename R, typename... A, size_t... I>
PyObject *invoke_impl(fn_record *rec, PyObject *const *args, Py_ssize_t nargs, std::index_sequence<I...>) {
    if (nargs != (Py_ssize_t)sizeof...(A)) {
        PyErr_Format(PyExc_TypeError, "%s(): incompatible function arguments (expected %d, got %d)", rec->name, (int)sizeof...(A), (int)nargs);
        return nullptr;
    }
    try {
        std::tuple<typename caster<std::decay_t<A>>::holder...> holders;
        (caster<std::decay_t<A>>::load(args[I], std::get<I>(holders), rec->name, (int)I), ...);
        R (*f)(A...) = (R(*)(A...))rec->fptr;
        if constexpr (std::is_void_v<R>) {
            f(caster<std::decay_t<A>>::get(std::get<I>(holders))...);
            Py_RETURN_NONE;
        } else {
            R r = f(caster<std::decay_t<A>>::get(std::get<I>(holders))...);
            return to_py(r);
        }
    } catch (const cast_error &e) {
        PyErr_Format(PyExc_TypeError, "%s(): incompatible function arguments: %s", rec->name, e.what());
        return nullptr;
    }
}
template <typename R, typename... A>
PyObject *invoke(fn_record *rec, PyObject *const *args, Py_ssize_t nargs) {
    return invoke_impl<R, A...>(rec, args, nargs, std::index_sequence_for<A...>{});
}
inline PyObject *trampoline(PyObject *self, PyObject *const *args, Py_ssize_t nargs) {
    fn_record *rec = (fn_record *)PyCapsule_GetPointer(self, "nbshim.fn");
    return rec->invoke(rec, args, nargs);
}
} // namespace detail

class module_ {
public:
    explicit module_(PyObject *m) : m_mod(m) {}
    template <typename R, typename... A> module_ &def(const char *name, R (*f)(A...)) {
        auto *rec = new detail::fn_record();
        rec->name = name;
        rec->fptr = (void *)f;
        rec->invoke = &detail::invoke<R, A...>;
        rec->def = {name, (PyCFunction)(void (*)(void))detail::trampoline, METH_FASTCALL, nullptr};
        PyObject *cap = PyCapsule_New(rec, "nbshim.fn", nullptr);
        PyObject *fn = PyCFunction_New(&rec->def, cap);
        Py_DECREF(cap);
        PyModule_AddObject(m_mod, name, fn);
        return *this;
    }
    PyObject *ptr() const { return m_mod; }
private:
    PyObject *m_mod;
};
} // namespace nanobind

#define NB_MODULE(name, variable)                                              \
    static void nbshim_init_##name(::nanobind::module_ &);                     \
    static PyModuleDef nbshim_def_##name = {PyModuleDef_HEAD_INIT, #name, nullptr, -1, nullptr, nullptr, nullptr, nullptr, nullptr}; \
    extern "C" __attribute__((visibility("default"))) PyObject *PyInit_##name(void) { \
        PyObject *m = PyModule_Create(&nbshim_def_##name);                     \
        if (!m) return nullptr;                                                \
        ::nanobind::module_ mod(m);                                            \
        nbshim_init_##name(mod);                                               \
        return m;                                                              \
    }                                                                          \
    static void nbshim_init_##name(::nanobind::module_ &variable)
