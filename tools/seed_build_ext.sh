#!/bin/bash
# Usage: tools/seed_build_ext.sh <path-to-phonopy-worktree>
# Builds phonopy's C extension (c/*.c + c/_phonopy.cpp, OpenMP) of that worktree IN PLACE as
# <worktree>/phonopy/_phonopy.cpython-312-x86_64-linux-gnu.so (nanobind is not installed in this sandbox; a small
# header-only stand-in for the few nanobind features the glue uses is in /verif/shim/nanobind; sub-agents were given a copy under /tmp/phbuild).
# After that:  cd <worktree> && /venv/bin/python -c "import phonopy._phonopy"   works (run python from the worktree root).
set -e
W=$(realpath "$1"); INC=$(/venv/bin/python -c "import sysconfig;print(sysconfig.get_paths()['include'])")
B=$(mktemp -d)
for f in phonopy dynmat derivative_dynmat rgrid tetrahedron_method; do
  gcc -std=gnu11 -O2 -fPIC -fopenmp -DTHM_EPSILON=1e-10 -I"$W/c" -c "$W/c/$f.c" -o "$B/$f.o" &
done
g++ -std=c++17 -O2 -fPIC -fopenmp -DTHM_EPSILON=1e-10 -I"$(dirname "$(realpath "$0")")/../shim" -I"$W/c" -I"$INC" -c "$W/c/_phonopy.cpp" -o "$B/glue.o" &
wait
g++ -shared -o "$W/phonopy/_phonopy.cpython-312-x86_64-linux-gnu.so" "$B"/*.o -fopenmp -lm
rm -rf "$B"; echo "built $W/phonopy/_phonopy.cpython-312-x86_64-linux-gnu.so"
