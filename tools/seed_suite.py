#!/usr/bin/env python3
"""For every confirmed seeded change: the repository's own test suite with the compiled extension (built from the worktree) passes the same
tests with the patch as without it. Records the result in seeded/<name>/meta.json (suite_with_extension).  tools/seed_suite.py [name ...]"""
import json, os, shutil, subprocess, sys, tempfile, xml.etree.ElementTree as ET

V = os.path.dirname(os.path.dirname(os.path.abspath(__file__)))


def sh(cmd, cwd=None, timeout=7200, env=None):
    return subprocess.run(cmd, cwd=cwd, capture_output=True, text=True, timeout=timeout, env=env)


def suite(wt):
    x = os.path.join(wt, "_junit.xml")
    env = {k: v for k, v in os.environ.items() if not k.startswith("PHONOPY_VERIF") and k != "PYTHONPATH"}
    env["OMP_NUM_THREADS"] = "2"
    sh(["/venv/bin/python", "-m", "pytest", "-q", "-p", "no:cacheprovider", "-n", "8", "--timeout=1800", "--deselect", "test/interface/test_symfc.py", "--deselect",
        "test/interface/test_pypolymlp.py", "--deselect", "test/sscha", "--deselect", "test/qha", "--junitxml=" + x], cwd=wt, env=env)
    passed = set()
    for tc in ET.parse(x).getroot().iter("testcase"):
        if not any(ch.tag in ("failure", "error", "skipped") for ch in tc):
            passed.add(tc.get("classname") + "::" + tc.get("name"))
    os.remove(x)
    return passed


def main():
    names = sys.argv[1:] or sorted(os.listdir(os.path.join(V, "seeded")))
    wt = tempfile.mkdtemp(prefix="ss_", dir="/tmp")
    os.rmdir(wt)
    try:
        assert sh(["git", "-C", "/repo", "worktree", "add", "-q", "--detach", wt, "HEAD"]).returncode == 0
        head = sh(["git", "-C", "/repo", "rev-parse", "--short", "HEAD"]).stdout.strip()
        assert sh([os.path.join(V, "tools", "seed_build_ext.sh"), wt]).returncode == 0
        ref = suite(wt)
        print("clean tree %s: %d tests pass" % (head, len(ref)), flush=True)
        for n in names:
            d = os.path.join(V, "seeded", n)
            if not os.path.exists(os.path.join(d, "patch.diff")):
                continue
            sh(["git", "checkout", "--", "."], cwd=wt)
            assert sh(["git", "apply", os.path.join(d, "patch.diff")], cwd=wt).returncode == 0, n
            assert sh([os.path.join(V, "tools", "seed_build_ext.sh"), wt]).returncode == 0, n
            now = suite(wt)
            res = {"repo_head": head, "passed_clean": len(ref), "passed_patched": len(now), "lost": sorted(ref - now)[:10], "gained": sorted(now - ref)[:10],
                   "command": "OMP_NUM_THREADS=2 pytest -n 8 --timeout=1800 --deselect test/interface/test_symfc.py --deselect test/interface/test_pypolymlp.py --deselect test/sscha --deselect test/qha (extension built in the worktree)"}
            m = json.load(open(os.path.join(d, "meta.json")))
            m["suite_with_extension"] = res
            json.dump(m, open(os.path.join(d, "meta.json"), "w"), indent=1)
            print(n, res["passed_clean"], res["passed_patched"], "lost", res["lost"], flush=True)
    finally:
        sh(["git", "-C", "/repo", "worktree", "remove", "--force", wt])
        shutil.rmtree(wt, ignore_errors=True)


if __name__ == "__main__":
    main()
