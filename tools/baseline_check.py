#!/usr/bin/env python3
"""Run the repository's baseline suite with the guard OFF and compare with /root/.vp/BASELINE.json stable_pass."""
import json, os, subprocess, sys, tempfile, xml.etree.ElementTree as ET
b = json.load(open("/root/.vp/BASELINE.json"))
tmp = tempfile.mkdtemp(prefix="vbase")
x = os.path.join(tmp, "r.xml")
env = {k: v for k, v in os.environ.items() if not k.startswith("PHONOPY_VERIF")}
env.pop("PYTHONPATH", None)
subprocess.run(["/venv/bin/python", "-m", "pytest", "-q", "-p", "no:cacheprovider", "--timeout=900", "--continue-on-collection-errors", "-n", "8",
                "--junitxml=" + x], cwd=os.environ.get("VERIF_REPO", "/repo"), env=env, capture_output=True)
passed = set()
for tc in ET.parse(x).getroot().iter("testcase"):
    if not any(ch.tag in ("failure", "error", "skipped") for ch in tc):
        passed.add(tc.get("classname") + "::" + tc.get("name"))
missing = [t for t in b["stable_pass"] if t not in passed]
print("baseline stable_pass=%d passed_now=%d missing=%d" % (len(b["stable_pass"]), len(passed), len(missing)))
for m in missing:
    print("  MISSING", m)
import shutil; shutil.rmtree(tmp, ignore_errors=True)
sys.exit(1 if missing else 0)
