#!/bin/bash
# tools/sweep.sh "<ids>" "<seeds>" [tier]   e.g. tools/sweep.sh "C01 C02" "0 1 2 3" quick
cd "$(dirname "$0")/.."
TIER=${3:-quick}
for id in $1; do for s in $2; do
  out=$(./check $id --tier $TIER --seed $s 2>&1); rc=$?
  echo "$id seed=$s tier=$TIER rc=$rc $(echo "$out" | grep -E '^(HELD|VIOLATION|INCONCLUSIVE)' | head -2 | tr '\n' ' ' | cut -c1-300)"
  if [ $rc -ne 0 ]; then echo "$out" | grep -E "witness|inconclusive:" | cut -c1-500 | head -5; fi
done; done
