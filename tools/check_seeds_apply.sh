#!/bin/bash
# Every kept seeded change must still apply to /repo's current HEAD (fix commits move the base): git apply --check in a scratch worktree.
d=$(mktemp -d /tmp/csa_XXXX); rmdir $d
git -C /repo worktree add -q --detach $d HEAD || exit 1
rc=0
for p in "$(cd "$(dirname "$0")"/.. && pwd)"/seeded/*/patch.diff; do
  if git -C $d apply --check "$p" 2>/dev/null; then echo "applies  $(basename $(dirname $p))"; else echo "STALE    $(basename $(dirname $p))"; rc=1; fi
done
git -C /repo worktree remove --force $d
exit $rc
