#!/bin/bash
# tools/first_verdict.sh <patch> <Cnn> <git-rev of /verif> [check args]: run the check module AS OF <rev> against a seeded change
# (honest "first verdict" when the current module has already been strengthened). The old module is checks/<cnn>old.py for the duration.
V="$(cd "$(dirname "$0")"/.. && pwd)"; p=$1; id=$2; rev=$3; shift 3
low=$(echo $id | tr A-Z a-z)
git -C $V show $rev:checks/$low.py > $V/checks/${low}old.py || exit 2
$V/tools/mutant.sh $p ${id}old "$@" 2>&1 | tail -2
rm -f $V/checks/${low}old.py
