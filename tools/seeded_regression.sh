#!/bin/bash
# tools/seeded_regression.sh [name-substring]: every kept seeded change against the check of its property (quick tier, seed 1):
# prints CAUGHT / MISSED per change; exit 1 if any is missed. (Scratch copies under /tmp via tools/mutant.sh, removed afterwards.)
V="$(cd "$(dirname "$0")"/.. && pwd)"; rc=0
for d in $V/seeded/*${1}*/; do
  n=$(basename $d); prop=$(python3 -c "import json;print(json.load(open('$d/meta.json'))['property'])")
  out=$($V/tools/mutant.sh $d/patch.diff $prop --seed 1 2>&1 | tail -1)
  case "$out" in CAUGHT*) echo "CAUGHT $n by $prop";; *) echo "MISSED $n by $prop :: $out"; rc=1;; esac
done
exit $rc
