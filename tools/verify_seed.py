#!/usr/bin/env python3
"""Confirm a sub-agent's seeded change myself in a scratch worktree, then file it under /verif/seeded/<name>/.

tools/verify_seed.py <name> <property> <dir with patch.diff + demo.py [+ notes.md]> [--checks C07,C13] [--skip-suite]
Steps: (1) clean scratch worktree of /repo HEAD + extension build; demo must PASS. (2) apply the patch; rebuild; demo must FAIL.
(3) baseline 81 tests (no extension) still pass with the patch; the extension-enabled suite passes the same set of tests as on the clean tree.
(4) run the named checks (quick tier) against the patched copy; record which report a violation.
"""
import json, os, shutil, subprocess, sys, tempfile, xml.etree.ElementTree as ET

V = os.path.dirname(os.path.dirname(os.path.abspath(__file__)))
REF = "/tmp/vs_ref_passed.json"


def sh(cmd, cwd=None, timeout=3600, env=None):
    return subprocess.run(cmd, cwd=cwd, shell=isinstance(cmd, str), capture_output=True, text=True, timeout=timeout, env=env)


def suite(wt):
    x = os.path.join(wt, "_junit.xml")
    env = {k: v for k, v in os.environ.items() if not k.startswith("PHONOPY_VERIF") and k != "PYTHONPATH"}
    sh(["/venv/bin/python", "-m", "pytest", "-q", "-p", "no:cacheprovider", "-n", "8", "--timeout=1800", "--deselect", "test/interface/test_symfc.py", "--deselect",
        "test/interface/test_pypolymlp.py", "--deselect", "test/sscha", "--deselect", "test/qha", "--junitxml=" + x], cwd=wt, env=env, timeout=7200)
    passed = set()
    for tc in ET.parse(x).getroot().iter("testcase"):
        if not any(ch.tag in ("failure", "error", "skipped") for ch in tc):
            passed.add(tc.get("classname") + "::" + tc.get("name"))
    os.remove(x)
    return passed


def main():
    name, prop, src = sys.argv[1:4]
    checks = [prop]
    skip_suite = "--skip-suite" in sys.argv
    for a in sys.argv[4:]:
        if a.startswith("--checks"):
            checks = a.split("=", 1)[1].split(",")
    patch = os.path.join(src, "patch.diff")
    demo = os.path.join(src, "demo.py")
    wt = tempfile.mkdtemp(prefix="vs_", dir="/tmp")
    os.rmdir(wt)
    meta = {"name": name, "property": prop, "source_dir": src, "ran": []}
    try:
        r = sh(["git", "-C", "/repo", "worktree", "add", "-q", "--detach", wt, "HEAD"])
        assert r.returncode == 0, r.stderr
        meta["repo_head"] = sh(["git", "-C", "/repo", "rev-parse", "--short", "HEAD"]).stdout.strip()
        assert sh([os.path.join(V, "tools", "seed_build_ext.sh"), wt]).returncode == 0
        denv = dict(os.environ, PYTHONPATH=wt)  # demos import phonopy from the worktree wherever the demo file lives
        r0 = sh(["/venv/bin/python", demo], cwd=wt, timeout=900, env=denv)
        meta["demo_clean_rc"] = r0.returncode
        meta["ran"].append("demo on clean tree: rc=%d" % r0.returncode)
        if not skip_suite and not os.path.exists(REF):
            json.dump(sorted(suite(wt)), open(REF, "w"))
        ra = sh(["git", "apply", patch], cwd=wt)
        if ra.returncode != 0:
            ra = sh("patch -p1 < %s" % patch, cwd=wt)
        meta["patch_applies"] = ra.returncode == 0
        assert ra.returncode == 0, ra.stderr + ra.stdout
        rb = sh([os.path.join(V, "tools", "seed_build_ext.sh"), wt])
        meta["builds_with_patch"] = rb.returncode == 0
        r1 = sh(["/venv/bin/python", demo], cwd=wt, timeout=900, env=denv)
        meta["demo_patched_rc"] = r1.returncode
        meta["demo_patched_tail"] = (r1.stdout + r1.stderr)[-600:]
        meta["ran"].append("demo with patch: rc=%d" % r1.returncode)
        # baseline (no extension): hide the .so
        so = [f for f in os.listdir(os.path.join(wt, "phonopy")) if f.startswith("_phonopy") and f.endswith(".so")]
        for f in so:
            os.rename(os.path.join(wt, "phonopy", f), os.path.join(wt, f + ".hidden"))
        rb_ = sh([os.path.join(V, "tools", "baseline_check.py")], env=dict(os.environ, VERIF_REPO=wt))
        meta["baseline_81"] = rb_.stdout.strip().splitlines()[0] if rb_.stdout.strip() else rb_.stderr[-200:]
        meta["baseline_81_ok"] = rb_.returncode == 0
        for f in so:
            os.rename(os.path.join(wt, f + ".hidden"), os.path.join(wt, "phonopy", f))
        if not skip_suite:
            ref = set(json.load(open(REF)))
            now = suite(wt)
            meta["suite_with_extension"] = {"passed_clean": len(ref), "passed_patched": len(now), "lost": sorted(ref - now)[:10], "gained": sorted(now - ref)[:10]}
        # my checks against the patched tree (tracked files only: remove the built .so so that the checks rebuild through the shim)
        for f in so:
            os.remove(os.path.join(wt, "phonopy", f))
        caught = {}
        for cid in checks:
            rc = sh([os.path.join(V, "check"), cid, "--tier", "quick"], cwd=V, env=dict(os.environ, VERIF_REPO=wt), timeout=7200)
            lines = [ln for ln in rc.stdout.splitlines() if ln.startswith(("VIOLATION", "HELD", "INCONCLUSIVE")) or "witness" in ln]
            caught[cid] = {"rc": rc.returncode, "verdict": "CAUGHT" if rc.returncode == 1 else ("inconclusive" if rc.returncode == 2 else "missed"), "lines": [ln[:300] for ln in lines[:4]]}
        meta["checks"] = caught
        ok = meta["demo_clean_rc"] == 0 and meta["demo_patched_rc"] != 0 and meta["baseline_81_ok"] and (skip_suite or not meta["suite_with_extension"]["lost"])
        meta["confirmed"] = bool(ok)
        out = os.path.join(V, "seeded", name)
        if ok:
            os.makedirs(out, exist_ok=True)
            shutil.copy(patch, os.path.join(out, "patch.diff"))
            shutil.copy(demo, os.path.join(out, "demo.py"))
            if os.path.exists(os.path.join(src, "notes.md")):
                shutil.copy(os.path.join(src, "notes.md"), os.path.join(out, "notes.md"))
            json.dump(meta, open(os.path.join(out, "meta.json"), "w"), indent=1)
        print(json.dumps(meta, indent=1)[:3000])
    finally:
        sh(["git", "-C", "/repo", "worktree", "remove", "--force", wt])
        shutil.rmtree(wt, ignore_errors=True)


if __name__ == "__main__":
    main()
