#!/usr/bin/env python3
"""Generate the harness' own mutant patches (one small semantic change each) from the table below.

tools/make_mutants.py            -> (re)writes mutants/<name>.patch against the current /repo tree
tools/make_mutants.py --run      -> additionally runs the listed check(s) against each mutant (scratch copy) and prints CAUGHT/MISSED
"""
import difflib
import json
import os
import subprocess
import sys

V = os.path.dirname(os.path.dirname(os.path.abspath(__file__)))
REPO = "/repo"

# name, file, old, new, checks expected to catch it
M = [
    ("c01_distribute_fc2_transpose", "c/phonopy.c", "r_cart[l][j]", "r_cart[j][l]", ["C01"]),
    ("c01_no_minus_displacement", "phonopy/harmonic/displacement.py", "if is_minus_displacement(", "if False and is_minus_displacement(", []),  # equivalent for exactly harmonic forces (one-sided sets are exact too)
    ("c02_dm_mass_dropped", "phonopy/harmonic/dynamical_matrix.py", "dm_local += fc_elem[k] * phase_factor / sqrt_mm / m", "dm_local += fc_elem[k] * phase_factor / m", ["C02"]),
    ("c02_c_sin_sign", "c/dynmat.c", "sin_phase += sin(phase * 2 * PI) / m_pair;", "sin_phase -= sin(phase * 2 * PI) / m_pair;", ["C02"]),
    ("c06_c_sin_sign", "c/dynmat.c", "sin_phase += sin(phase * 2 * PI);", "sin_phase -= sin(phase * 2 * PI);", ["C06"]),
    ("c03_masses_setter_supercell", "phonopy/api_phonopy.py", "        self._supercell.set_masses(s_masses)\n", "", ["C03"]),
    ("c04_surrounding_frame", "phonopy/structure/cells.py", "frame = [max(axes[:, i]) - min(axes[:, i]) for i in (0, 1, 2)]", "frame = [max(axes[:, i]) for i in (0, 1, 2)]", ["C04"]),
    ("c04_trim_rint", "phonopy/structure/cells.py", "positions_in_new_lattice -= np.floor(positions_in_new_lattice)", "positions_in_new_lattice -= np.rint(positions_in_new_lattice)", []),  # equivalent: positions modulo lattice vectors are unchanged
    ("c05_lattice_1d", "phonopy/structure/cells.py", "lattice_1D = (-1, 0, 1)", "lattice_1D = (0, 1)", ["C05"]),
    ("c05_rint_to_floor", "phonopy/structure/cells.py", "supercell_fracs -= np.rint(supercell_fracs)", "supercell_fracs -= np.floor(supercell_fracs)", ["C05"]),
    ("c06_commensurate_no_transpose", "phonopy/harmonic/dynmat_to_fc.py", "rec_supercell = get_supercell(rec_primitive, smat.T)", "rec_supercell = get_supercell(rec_primitive, smat)", ["C06"]),
    ("c06_py_phase_sign", "phonopy/harmonic/dynmat_to_fc.py", "phases = -2j * np.pi * np.dot(self._commensurate_points, pos.T)", "phases = 2j * np.pi * np.dot(self._commensurate_points, pos.T)", ["C06"]),
    ("c07_translational_patom", "c/phonopy.c", "                    sum /= n_satom;\n                    for (i = 0; i < n_satom; i++) {", "                    sum /= n_satom - 1;\n                    for (i = 0; i < n_satom; i++) {", ["C07"]),
    ("c08_wang_factor", "c/dynmat.c", "nac_factor / n / get_dielectric_part(q_dir_cart, dielectric),", "nac_factor / get_dielectric_part(q_dir_cart, dielectric),", ["C08"]),
    ("c08_q_direction_tolerance", "phonopy/harmonic/dynamical_matrix.py", "q_norm = np.linalg.norm(self._rec_lat @ q_direction)", "q_norm = np.linalg.norm(q_direction) * 1e-6", ["C08"]),
    ("c09_has_mesh_symmetry_always", "phonopy/structure/grid_points.py", "return np.extract(lattice_equiv, mesh_equiv).all()", "return True", ["C09"]),
    ("c09_weights_off", "phonopy/structure/grid_points.py", "        weights[gp] += 1", "        weights[gp] += 1\n    weights[grid_mapping_table[0]] += 0 if len(grid_mapping_table) < 9 else 1", ["C09"]),
    ("c10_cutoff_ge", "c/phonopy.c", "if (temperatures[j] > 0 && f > cutoff_frequency) {", "if (temperatures[j] > 0 && f >= cutoff_frequency) {", ["C10"]),
    ("c10_kb_digits", "c/phonopy.c", "#define KB 8.6173382568083159E-05", "#define KB 8.6173382568083E-05", []),
    ("c10_py_entropy_weight", "phonopy/phonon/thermal_properties.py", "            entropy.append(props[1] * 1000)", "            entropy.append(props[1] * 1000 * (1 + 1e-6))", ["C10"]),
    ("c11_I_formula", "c/tetrahedron_method.c", "static double _I_21(", "static double _I_21_orig(", []),
    ("c11_pdos_weights", "phonopy/phonon/dos.py", "weights = self._weights / float(np.sum(self._weights))", "weights = self._weights / float(np.sum(self._weights) + 1e-3)", ["C11"]),
    ("c12_gv_factor", "phonopy/phonon/group_velocity.py", "gv[i, :] *= self._factor**2 / f / 2", "gv[i, :] *= self._factor**2 / f", ["C12"]),
    ("c12_delta_strain", "phonopy/gruneisen/core.py", "self._delta_strain = dV / volume", "self._delta_strain = dV / volume_plus", ["C12"]),
    ("c14_eigvecs_transposed", "phonopy/phonon/qpoints.py", "eigenvectors[i] = eigvecs", "eigenvectors[i] = eigvecs.T", ["C14"]),
    ("c14_band_connection_gv_unordered", "phonopy/phonon/band_structure.py", "gv_on_path.append(gv[i][band_order])", "gv_on_path.append(gv[i])", []),
    ("c14_mesh_yaml_wrong_weight", "phonopy/phonon/mesh.py", 'lines.append("  weight: %-5d" % self._weights[i])', 'lines.append("  weight: %-5d" % self._weights[0])', ["C14"]),
    ("c19_sqrt2_dropped", "phonopy/phonon/random_displacements.py", "np.sqrt(2)", "1.0", ["C19"]),
    ("c19_half_dropped", "phonopy/phonon/random_displacements.py", "(0.5 + n)", "(n)", ["C19"]),
    ("c19_msd_mass", "phonopy/phonon/thermal_displacement.py", "c[i] = np.outer(v, v.conj()) / m", "c[i] = np.outer(v, v) / m", ["C19"]),
    ("c20_pressure_sign", "phonopy/qha/core.py", "self._electronic_energies += self._volumes * pressure / EVAngstromToGPa", "self._electronic_energies -= self._volumes * pressure / EVAngstromToGPa", ["C20"]),
    ("c20_el_index", "phonopy/qha/core.py", "el_energy = self._electronic_energies[i]", "el_energy = self._electronic_energies[0]", ["C20"]),
    ("c20_bm_coefficient", "phonopy/qha/eos.py", "9.0 / 16", "9.0 / 8", ["C20"]),
    ("c20_expansion_dt", "phonopy/qha/core.py", "dt = self._temperatures[i + 1] - self._temperatures[i - 1]", "dt = self._temperatures[i + 1] - self._temperatures[i]", ["C20"]),
    ("c16_extended_symbol_dropped", "phonopy/structure/atoms.py", 'if "extended_symbol" in x:  # like Fe1\n                symbols.append(x["extended_symbol"])\n            elif "symbol" in x:  # like Fe\n                symbols.append(x["symbol"])', 'if "symbol" in x:  # like Fe\n                symbols.append(x["symbol"])\n            elif "extended_symbol" in x:  # like Fe1\n                symbols.append(x["extended_symbol"])', ["C16"]),
    ("c18_tdisp_fmin_ignored", "phonopy/cui/phonopy_script.py", "                direction=p_direction,\n                freq_min=settings.min_frequency,", "                direction=p_direction,\n                freq_min=None,", ["C18"]),
    ("c18_gv_yaml_component", "phonopy/phonon/mesh.py", "% tuple(self._group_velocities[i, j])", "% tuple(self._group_velocities[i, j][::-1])", ["C18"]),
    ("c18_tprop_cutoff_ignored", "phonopy/cui/phonopy_script.py", "                cutoff_frequency=settings.cutoff_frequency,", "                cutoff_frequency=None,", ["C18"]),
    ("c18_band_connection_ignored", "phonopy/cui/phonopy_script.py", "is_band_connection=settings.is_band_connection,", "is_band_connection=False,", ["C18"]),
    ("c17_bohr_dropped", "phonopy/interface/calculator.py", 'units["distance_to_A"] = Bohr\n        units["force_to_eVperA"] = Rydberg / Bohr', 'units["distance_to_A"] = 1.0\n        units["force_to_eVperA"] = Rydberg / Bohr', ["C17"]),
    ("c17_vasp_sort_unstable", "phonopy/interface/vasp.py", "return sorted(range(len(keys)), key=keys.__getitem__)", "return sorted(range(len(keys)), key=lambda i: (keys[i], -i))", ["C17"]),
    ("c16_magmom_component", "phonopy/structure/atoms.py", "{mag[1]:.8f}, {mag[2]:.8f}]", "{mag[1]:.8f}, {mag[1]:.8f}]", ["C16"]),
    ("c16_priority_yaml_beats_filename", "phonopy/cui/load_helper.py", "    if force_sets_filename is not None:\n        _dataset = parse_FORCE_SETS(natom=natom, filename=force_sets_filename)\n        _force_sets_filename = force_sets_filename\n    elif forces_in_dataset(dataset):\n        _dataset = dataset\n        _force_sets_filename = phonopy_yaml_filename\n", "    if forces_in_dataset(dataset):\n        _dataset = dataset\n        _force_sets_filename = phonopy_yaml_filename\n    elif force_sets_filename is not None:\n        _dataset = parse_FORCE_SETS(natom=natom, filename=force_sets_filename)\n        _force_sets_filename = force_sets_filename\n", ["C16"]),
    ("c15_gonze_cache_kept", "phonopy/harmonic/dynamical_matrix.py", "        self._Gonze_force_constants = None\n        self._with_full_terms = with_full_terms", "        self._with_full_terms = with_full_terms", []),
    ("c13_python_int64_permutations", "phonopy/harmonic/force_constants.py", '    return np.array(rot_map_syms, dtype="intc", order="C")', '    return np.array(rot_map_syms, dtype="int64", order="C")', []),
]


def main():
    run = "--run" in sys.argv
    only = [a for a in sys.argv[1:] if not a.startswith("--")]
    os.makedirs(os.path.join(V, "mutants"), exist_ok=True)
    results = {}
    for name, fn, old, new, checks in M:
        if only and not any(o in name for o in only):
            continue
        path = os.path.join(REPO, fn)
        src = open(path).read()
        if src.count(old) < 1:
            print("SKIP %s: pattern not found in %s" % (name, fn))
            continue
        mut = src.replace(old, new, 1)
        diff = "".join(difflib.unified_diff(src.splitlines(True), mut.splitlines(True), "a/" + fn, "b/" + fn))
        pf = os.path.join(V, "mutants", name + ".patch")
        open(pf, "w").write(diff)
        if run and checks:
            for cid in checks:
                r = subprocess.run([os.path.join(V, "tools", "mutant.sh"), pf, cid], capture_output=True, text=True)
                last = r.stdout.strip().splitlines()[-1] if r.stdout.strip() else "?"
                print(last)
                results[name + ":" + cid] = last.split()[0]
    if run:
        json.dump(results, open(os.path.join(V, "mutants", "last_run.json"), "w"), indent=1)


if __name__ == "__main__":
    main()
