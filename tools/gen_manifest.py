#!/usr/bin/env python3
"""Regenerate MANIFEST.json from the table below (only checks whose driver exists are claimed)."""
import json
import os

V = os.path.dirname(os.path.dirname(os.path.abspath(__file__)))
props = [json.loads(l) for l in open(os.path.join(V, "properties.jsonl"))]

BASE = "cd /repo && /venv/bin/python -m pytest -ra -q -p no:cacheprovider --timeout=900 --continue-on-collection-errors"

T = {
    "C01": ("reference-model monitor at the API boundary: harness-owned harmonic model (pair-spring image sum / space-group-projected random array) vs produce_force_constants output, C04 tiling contracts always on",
            "Held on the executions produced: zoo of 34 prototypes (incl. 4 magnetic) x diagonal/non-diagonal/centring supercells x primitive matrices x 3x2x3 displacement options x full/compact x symmetry on/off; evidence lists what was visited. Exactly harmonic model makes every option combination decidable to 1e-9.",
            "shim-built extension (argument conversion only); spglib operations of the supercell for the projected model; traditional solver only (symfc/ALM absent)", "3/C01"),
}

NA_REASON = "check not built yet in this round (runtime-monitoring driver pending); no claim is made"


def main():
    checks, na = [], []
    for p in props:
        pid = p["id"]
        drv = os.path.join(V, "checks", pid.lower() + ".py")
        if pid in T and os.path.exists(drv):
            tech, text, note, ref = T[pid]
            checks.append({
                "property_id": pid,
                "quick_cmd": "./check %s --tier quick" % pid,
                "thorough_cmd": "./check %s --tier thorough" % pid,
                "evidence_file": "evidence/%s.json" % pid,
                "replay_cmd_template": "./check %s --replay {path}" % pid,
                "engine": "vlib-runner",
                "level_claimed": {"category": "exploration", "text": text, "design_ref": "DESIGN.md section " + ref},
                "level_note": note,
                "technique": "runtime monitoring: " + tech,
            })
        else:
            na.append({"property_id": pid, "reason": NA_REASON})
    m = {
        "version": 1,
        "setup_cmd": "./check bootstrap",
        "hooks": {
            "guard": "PHONOPY_VERIF",
            "enable": "no source hooks: instrumentation is attached from outside (sitecustomize import hook selecting the shim-built _phonopy variant via PHONOPY_VERIF_EXT, icontract post-conditions on class attributes, proxy module for the kernel tap, LD_PRELOAD sanitizer runtimes); active only when PHONOPY_VERIF* variables are set by ./check",
            "baseline_off_cmd": BASE,
            "source_commits": [],
            "add_only": True,
        },
        "engines": [{"name": "vlib-runner", "path": "vlib/runner.py", "serves_properties": [c["property_id"] for c in checks],
                     "kind_free_text": "sharded subprocess runner; oracles observe executions of the real Python layer and of c/*.c compiled from the working tree (omp/serial/asan/tsan/dbg variants through a nanobind-compatible shim)"}],
        "checks": checks,
        "not_applicable": na,
        "notes": "Exit 0 held / 1 VIOLATION / 2 INCONCLUSIVE. Known findings live in known_findings.json (mechanism predicates). See DESIGN.md.",
    }
    json.dump(m, open(os.path.join(V, "MANIFEST.json"), "w"), indent=1)
    print("claimed:", [c["property_id"] for c in checks], "na:", len(na))


if __name__ == "__main__":
    main()
