#!/usr/bin/env python3
"""Regenerate MANIFEST.json from the table below (only checks whose driver exists are claimed)."""
import json
import os

V = os.path.dirname(os.path.dirname(os.path.abspath(__file__)))
props = [json.loads(l) for l in open(os.path.join(V, "properties.jsonl"))]

BASE = "cd /repo && /venv/bin/python -m pytest -ra -q -p no:cacheprovider --timeout=900 --continue-on-collection-errors"

T = {
    "C01": ("reference-model monitor at the API boundary: harness-owned harmonic model (pair-spring image sum / space-group-projected random array) vs produce_force_constants output, C04 tiling contracts always on",
            "Held on the executions produced: zoo of 34 prototypes (incl. 4 magnetic) x diagonal/non-diagonal/centring supercells x primitive matrices x 3x2x3 displacement options x full/compact x symmetry on/off; evidence lists what was visited. Exactly harmonic model makes every option combination decidable to 1e-9.",
            "shim-built extension (argument conversion only); spglib operations of the supercell for the projected model; traditional solver only (symfc/ALM absent)", "3/C01"),
    "C02": ("reference-model monitor: direct infinite-lattice Fourier sum of the closed-form pair model (harness, Cartesian) vs DynamicalMatrix.run(C|Py) and run_qpoints",
            "Held on the executions produced: 30 zoo prototypes x diag/non-diag supercells x P/centring primitive x short-range (any q: random, zone boundary, |q|>1, Gamma) and long-range (commensurate q) regimes x full/compact x dense/sparse; 1e-9 relative.",
            "pair model tapered to zero at the cutoff; primitive cell taken from the object (its tiling is checked by the C04 contract in the same run)", "3/C02"),
    "C03": ("relational (metamorphic) monitor over pairs of executions: Hermiticity, D(-q)=conj D(q), spectrum(q+G), spectrum(Rq), acoustic zeros, s/t scaling through the setters",
            "Held on the executions produced: arbitrary periodic arrays, ASR arrays and space-group-projected arrays on the zoo, C and Py paths, full/compact, dense/sparse; the Rq identity only where the harness measured the symmetry precondition.",
            "harness group action (spglib operations + brute-force atom matching) decides the symmetry precondition", "3/C03"),
    "C04": ("icontract post-conditions on Supercell.__init__/Primitive.__init__ (always on in every check) + dedicated driver with an integer-arithmetic tiling oracle",
            "Held on the executions produced: hostile unit cells x sampled (quick) / all (thorough) {-1,0,1} matrices with det>0, diagonal and random matrices x old-style and SNF; primitive matrices P,F,I,A,C,R,auto,explicit; rejection inputs. Contract evaluation counts from all call sites are in the evidence.",
            "empty cell or exception = rejected; tolerances 1e-10 (lattice) / 1e-8 (integrality)", "3/C04"),
    "C05": ("post-condition monitor on ShortestPairs / Primitive.get_smallest_vectors with a brute-force image enumeration inside a provably sufficient box; must/must-not/don't-care bands around symprec",
            "Held on the pairs produced: sheared random lattices, needles/plates to 1:50, cubic/fcc/bcc/hex with 2..8-fold ties, zoo supercells; dense and sparse storage describe the same sets.",
            "Niggli reduction by the harness' own spglib call to bound the box; boxes > 3e6 points skipped and counted", "3/C05"),
    "C06": ("icontract post-conditions on get_commensurate_points* (integer lattice arithmetic) + round-trip monitor FC->D(q_c)->FC (C/Py, full/compact) + ph2ph re-expression monitor",
            "Held on the executions produced: random integer matrices (det<=48), zoo supercells incl. Wigner-Seitz-boundary multiplicities, ph2ph to multiple and non-multiple targets with/without NAC (Gonze-Lee to its reciprocal-sum precision).",
            "round trip claimed for permutation-symmetric periodic arrays only (D is Hermitised); ph2ph compared at q commensurate with both supercells", "3/C06"),
    "C07": ("relational monitor: fixed points, imposed invariances measured by the harness (drift, permutation, space-group residual), idempotence, compact routine vs full routine on the harness-expanded array",
            "Held on the executions produced: zoo x supercells with and without self-inverse translations (counted) x projected/noisy/random periodic inputs x levels 1..3; set_tensor_symmetry_PJ, show_drift immutability, layout round trip. 1e-10 relative.",
            "harness derives the pure translations and the compact<->full expansion from positions itself", "3/C07"),
    "C08": ("reference-model monitor: closed-form zone-centre non-analytic term from the (Z, eps) stored after symmetrisation; no-op identities at commensurate q and for zero charges; symmetrisation vs harness group average",
            "Held on the executions produced: polar zoo cells x Wang and Gonze-Lee x full/compact x 4 unit factors x 8 directions with |n| scaled by 1e-3..1e3 x all commensurate q (Gonze-Lee exact at the unique first-BZ representative, reciprocal-sum precision elsewhere).",
            "n.Z contracts the first (field) index of the Born tensor as documented; Gonze-Lee precision away from the construction points taken as 1e-3 of the dipole-dipole scale", "3/C08"),
    "C09": ("icontract post-condition on GridPoints (always on) + documented-grid oracle, orbit test on the mapping table under the harness' reciprocal point group (or time reversal), exactly invariant test functions summed over ir-points vs the full grid, phonon-level sums with mesh symmetry on vs off",
            "Held on the executions produced: 17 primitive cells of all lattice systems x meshes from {1..6}^3 x none/half/arbitrary/integer shifts x Gamma/MP x time reversal x fit_in_BZ x symmetry; Mesh and IterMesh; thermal properties, smearing DOS, moments. One known finding (symmetry-breaking half shift without time reversal).",
            "point group from the harness' own spglib call; tetrahedron DOS deliberately excluded", "3/C09"),
    "C10": ("icontract post-condition on ThermalProperties.run (always on) + (nu,T)-plane sweep through a stub Mesh and real meshes; oracle = overflow-free closed forms in documented units, C vs Py, T=0 limits, finiteness, signs/monotonicity/Dulong-Petit bound, S=-dF/dT and C_V=T dS/dT by central differences",
            "Held on the executions produced: h nu/kT from 1e-6 to 1e5 (incl. the former NaN regime > 709), cutoffs inside the spectrum, imaginary modes, pretend_real, band indices, projections, classical statistics, both languages; real zoo meshes through run_thermal_properties.",
            "constants from phonopy.units; closed-form tolerance 1e-8 of the natural scale; classical entropy exempt from sign tests", "3/C10"),
    "C11": ("post-condition monitors on TotalDos/ProjectedDos/TetrahedronMesh/TetrahedronMethod: sum rules, additivity, monotonicity, dJ/dw=I, compiled vs Python on consistent frequency fields; branch table measured by the harness",
            "Held on the executions produced: zoo meshes (incl. 1-thick and shifted) with symmetry on/off, normal and Cauchy smearing, atom/xyz/direction projections; synthetic fields (smooth, rough, exact ties, constant) on grids with each of the 4 main diagonals shortest; all 4x5 (central vertex position x interval) cells reached.",
            "frequencies generic (never exactly a vertex value) where C and Py are compared; smearing quadrature tolerance 2e-3", "3/C11"),
    "C12": ("reference-model monitor: central differences (two step sizes, error must shrink) of phonopy's own D(q) and mode frequencies vs DerivativeOfDynamicalMatrix (C and Py) and reported group velocities (analytic and delta_q); closed-form Grueneisen parameter for uniformly scaling constants; reduced vs full Grueneisen mesh",
            "Held on the executions produced: 14 zoo crystals x supercells x symmetric model and arbitrary (not permutation-symmetric) periodic constants x none/Wang NAC x full/compact x C/Py; generic and high-symmetry q.",
            "group velocities compared only where phonopy's little-group symmetrisation is legitimate (symmetric constants on isotropic supercells, else is_symmetry=False); Grueneisen modes inside phonopy's degeneracy tolerance band are don't-care", "3/C12"),
    "C13": ("sanitizers and kernel-boundary tap: ASan+UBSan build in the real interpreter; TSan build on a pthread mini-OpenMP runtime (thread counts, permuted thread ids, yields); guard-page re-homing of every array argument in the production build; differential re-execution of every captured call with 1..16 threads and on the serial build; the other checks' reference oracles under the serial build; argument well-formedness against the C element types parsed from c/_phonopy.cpp",
            "Held on the executions produced: all exported kernels reached through the public classes with >=3 distinct shape tuples each, 0 sanitizer reports, bitwise thread-count independence, serial/OpenMP agreement, reference oracles silent. Evidence lists kernel call counts, shapes, regions that really ran multi-threaded.",
            "shim instead of nanobind for the glue; numpy/CPython uninstrumented; red zones + guard pages do not see intra-array overflows; TSan sees only schedules that happened", "3/C13"),
    "C14": ("relational monitor over access paths x option product on the OpenMP and the serial build: reported (D, w, e) must satisfy D e = w^2 e; run_qpoints 2^3 options, band paths (with/without connection, NAC direction at Gamma), Mesh, IterMesh, dynamical_matrix.run, get_frequencies*; yaml/hdf5 parsed back at the printed precision measured from the text",
            "Held on the executions produced: 14 zoo crystals x supercells x NAC none/Wang/Gonze-Lee x full/compact x both builds (both arms of QpointsPhonon._run are executed and counted).",
            "eigenvalues (not frequencies) compared; eigenvectors only through residuals/orthonormality; hdf5 must be bit-identical", "3/C14"),
    "C15": ("history monitor: recorded API histories (call event before, outcome after) compared with a fresh-object replay model built from the final state; aliasing monitor: checksums of every caller array across the history, mutation of every handed-out array followed by re-query",
            "Held on the executions produced: ALL histories of length <= 2 (quick) / <= 3 (thorough) over a 14-operation alphabet from three initial states (no NAC, Wang, Gonze-Lee) plus random histories of length 4..8; 12 aliasing probes per cell/initial state. Three documented/deliberate reference-semantics behaviours are listed as known findings.",
            "reference = the real class freshly constructed; operations that raise are recorded as outcomes", "3/C15"),
    "C16": ("file-boundary round-trip monitor: save()/load() and every file_IO writer/parser pair, oracle = the in-memory object that was written, tolerance = printed precision measured from the written text; repeated in a working directory seeded with decoy files; documented priority list of load() checked pairwise with distinguishable sources",
            "Held on the executions produced: 12 crystals (extended symbols, collinear/non-collinear moments, custom masses) x 17 calculator settings x dataset type 1/2/none x FC full/compact/none x NAC x xz x all 2^5 settings dictionaries; FORCE_SETS/FORCE_CONSTANTS/hdf5/BORN with values from 1e-8 to 1e8; 21 source pairs of the load() priority list.",
            "type-2 datasets are round-tripped but not turned into force constants (symfc/ALM absent)", "3/C16"),
    "C17": ("file-boundary round-trip monitor per interface (adapters add only format-prescribed headers/comments, never touch numeric or species fields) + exhaustive SI re-derivation of the 17 unit sets + end-to-end 'same physical crystal in every unit system' + fault injection into calculator outputs for create_FORCE_SETS",
            "Held on the executions produced: 15 interfaces x 11 cells (interleaved/grouped/random order, positions outside [0,1), rotated lattices) incl. displaced supercells; all 17 unit entries (exhaustive); 4-8 crystals re-expressed in every unit system with and without NAC; swapped / atom-permuted vasprun.xml refused.",
            "cp2k structure I/O not decidable (cp2k-input-tools absent); CRYSTAL has no same-interface reader for its inputs (harness parser of the .ext block); tolerance from measured printed precision", "3/C17"),
    "C19": ("linear-map extraction monitor: one-hot standard-normal variates pushed through the real sampler (run(T, randn=...)) give the map A; A A^T vs the canonical covariance from the harness' own diagonalisation of the supercell dynamical matrix; uu, uu.uu_inv, run_d2f; mean-square displacement matrices vs the harness' mode sum on full meshes",
            "Held on the executions produced: 12 crystals x supercells with and without conjugate q pairs x quantum/classical x T in {0,10,300,2000} x cutoffs; MSD matrices at T in {0,0.7,10,300,2000} incl. a heavy-mass variant that puts h nu ~ kT near 1 K, frequency windows, projections, CIF transform.",
            "numpy eigh of M^-1/2 Phi M^-1/2 and phonopy.units constants; the same cutoff rule applied to the harness' own spectrum", "3/C19"),
    "C20": ("reference-model monitor: generator-owned EOS parameters as smooth functions of T -> exact-EOS free energies -> PhonopyQHA must return V0(T), G(T), B0(T), documented finite-difference thermal expansion and C_P; defining meaning of each EOS parameter by Richardson-extrapolated central differences",
            "Held on the executions produced: 3 EOS x 60 (quick) / 600 (thorough) parameter sets for the defining identities; 3 EOS x parameter sets x 5..15-point volume grids x pressures {none,0,+-5,30 GPa} x electronic energies of shape (V) and (T,V) x t_max choices; static BulkModulus fit.",
            "scipy from the offline wheelhouse; exact-EOS input so the least-squares minimum is the generating parameter set", "3/C20"),
    "C18": ("process-boundary monitor: phonopy / phonopy-load run as subprocesses (contracts active inside them) through complete workflows, every written file compared at its measured printed precision with library calls on the same input files; settings-object monitor over every row of the option<->tag table parsed from doc/command-options.md at run time, for both commands; option route vs configuration-file route byte-identical outputs; final phonopy.yaml reloaded",
            "Held on the executions produced: 5 (quick) / 8 (thorough) crystals incl. NAC and magnetic cells x both commands x {-d, -f, mesh, thermal properties, DOS, PDOS, band, q-points, writefc/readfc, NAC}; 142 table rows x 2 commands. Documented options that the parser does not accept are listed in the evidence.",
            "symfc absent: phonopy-load always run with --fc-calc traditional; only VASP outputs synthesised for -f; hand-written value catalogue for valued tags", "3/C18"),
}

NA_REASON = "check not built yet in this round (runtime-monitoring driver pending); no claim is made"


def main():
    checks, na = [], []
    for p in props:
        pid = p["id"]
        drv = os.path.join(V, "checks", pid.lower() + ".py")
        if pid in T and os.path.exists(drv):
            tech, text, note, ref = T[pid]
            checks.append({
                "property_id": pid,
                "quick_cmd": "./check %s --tier quick" % pid,
                "thorough_cmd": "./check %s --tier thorough" % pid,
                "evidence_file": "evidence/%s.json" % pid,
                "replay_cmd_template": "./check %s --replay {path}" % pid,
                "engine": "vlib-runner",
                "level_claimed": {"category": "exploration", "text": text, "design_ref": "DESIGN.md section " + ref},
                "level_note": note,
                "technique": "runtime monitoring: " + tech,
            })
        else:
            na.append({"property_id": pid, "reason": NA_REASON})
    m = {
        "version": 1,
        "setup_cmd": "./check bootstrap",
        "hooks": {
            "guard": "PHONOPY_VERIF",
            "enable": "no source hooks: instrumentation is attached from outside (sitecustomize import hook selecting the shim-built _phonopy variant via PHONOPY_VERIF_EXT, icontract post-conditions on class attributes, proxy module for the kernel tap, LD_PRELOAD sanitizer runtimes); active only when PHONOPY_VERIF* variables are set by ./check",
            "baseline_off_cmd": BASE,
            "source_commits": [],
            "add_only": True,
        },
        "engines": [{"name": "vlib-runner", "path": "vlib/runner.py", "serves_properties": [c["property_id"] for c in checks],
                     "kind_free_text": "sharded subprocess runner; oracles observe executions of the real Python layer and of c/*.c compiled from the working tree (omp/serial/asan/tsan/dbg variants through a nanobind-compatible shim)"}],
        "checks": checks,
        "not_applicable": na,
        "notes": "Exit 0 held / 1 VIOLATION / 2 INCONCLUSIVE. Known findings live in known_findings.json (mechanism predicates). See DESIGN.md.",
    }
    json.dump(m, open(os.path.join(V, "MANIFEST.json"), "w"), indent=1)
    print("claimed:", [c["property_id"] for c in checks], "na:", len(na))


if __name__ == "__main__":
    main()
