#!/bin/bash
# tools/mutant.sh <patch-file> <check-id> [extra check args]   -> runs the check against a scratch copy of /repo with the patch applied.
# Exit status: 0 if the check reported a violation (mutant caught), 1 otherwise.
set -u
PATCH=$(realpath "$1"); CID=$2; shift 2
D=$(mktemp -d /tmp/vmut.XXXXXX)
rsync -a --exclude .git --exclude __pycache__ /repo/ "$D/"
if ! (cd "$D" && patch -p1 -s < "$PATCH"); then echo "PATCH-FAILED $PATCH"; rm -rf "$D"; exit 2; fi
cd /verif
VERIF_REPO="$D" ./check "$CID" "$@" > "$D.log" 2>&1
rc=$?
grep -E "^VIOLATION|^HELD|^INCONCLUSIVE|witness" "$D.log" | cut -c1-260 | head -6
rm -rf "$D" "$D.log"
[ $rc -eq 1 ] && { echo "CAUGHT $(basename $PATCH) by $CID"; exit 0; } || { echo "MISSED $(basename $PATCH) by $CID (rc=$rc)"; exit 1; }
