"""Build phonopy's C extension from the current working tree of the repo, without nanobind.

c/_phonopy.cpp and c/*.c are compiled UNCHANGED against shim/nanobind/*.h (a header-only
nanobind look-alike over the CPython buffer protocol).  Several variants are produced; the
products are keyed by a hash of (c sources, shim, flags) so a changed source => rebuild.
"""

from __future__ import annotations

import hashlib
import os
import shutil
import subprocess
import sys
import sysconfig
from concurrent.futures import ThreadPoolExecutor

VERIF = os.path.dirname(os.path.dirname(os.path.abspath(__file__)))
REPO = os.environ.get("VERIF_REPO", "/repo")
CACHE = os.path.join(VERIF, ".cache")
SHIM = os.path.join(VERIF, "shim")
SO_NAME = "_phonopy.cpython-312-x86_64-linux-gnu.so"

C_SOURCES = ["phonopy.c", "dynmat.c", "derivative_dynmat.c", "rgrid.c", "tetrahedron_method.c"]

COMMON = ["-fPIC", "-DTHM_EPSILON=1e-10"]
VARIANTS = {
    # name: (compile flags, link flags, use minigomp)
    "omp": (["-O3", "-DNDEBUG", "-fopenmp"], ["-fopenmp"], False),
    "serial": (["-O3", "-DNDEBUG"], [], False),
    "asan": (
        ["-O1", "-g", "-fno-omit-frame-pointer", "-fsanitize=address,undefined",
         "-fno-sanitize-recover=all", "-fopenmp"],
        ["-fsanitize=address,undefined", "-fopenmp"],
        False,
    ),
    "tsan": (["-O1", "-g", "-fsanitize=thread", "-fopenmp"], ["-fsanitize=thread", "-lpthread"], True),
    "dbg": (["-O0", "-g"], [], False),
}


def _read(p):
    with open(p, "rb") as f:
        return f.read()


def tree_hash(repo=None):
    repo = repo or REPO
    h = hashlib.sha256()
    cdir = os.path.join(repo, "c")
    for fn in sorted(os.listdir(cdir)):
        if fn.endswith((".c", ".h", ".cpp")):
            h.update(fn.encode())
            h.update(_read(os.path.join(cdir, fn)))
    for fn in ("nanobind/nanobind.h", "nanobind/ndarray.h", "minigomp.c"):
        h.update(_read(os.path.join(SHIM, fn)))
    h.update(repr(sorted(VARIANTS.items())).encode())
    h.update(sys.version.encode())
    return h.hexdigest()[:16]


def _run(cmd):
    r = subprocess.run(cmd, capture_output=True, text=True)
    if r.returncode != 0:
        raise RuntimeError("build failed: %s\n%s\n%s" % (" ".join(cmd), r.stdout, r.stderr))


def build_dir(repo=None):
    return os.path.join(CACHE, "build", tree_hash(repo))


def so_path(variant, repo=None):
    return os.path.join(build_dir(repo), variant, SO_NAME)


def ensure(variants=("omp", "serial"), repo=None, jobs=16):
    """Build the requested variants for the repo's current tree (idempotent). Returns {variant: path}."""
    repo = repo or REPO
    bdir = build_dir(repo)
    inc = sysconfig.get_paths()["include"]
    cdir = os.path.join(repo, "c")
    todo = [v for v in variants if not os.path.exists(os.path.join(bdir, v, SO_NAME))]
    if todo:
        tasks = []
        for v in todo:
            cf, lf, mini = VARIANTS[v]
            odir = os.path.join(bdir, v + ".tmp%d" % os.getpid())
            os.makedirs(odir, exist_ok=True)
            for src in C_SOURCES:
                tasks.append(["gcc", "-std=gnu11"] + COMMON + cf + ["-I", cdir, "-c", os.path.join(cdir, src),
                              "-o", os.path.join(odir, src + ".o")])
            tasks.append(["g++", "-std=c++17"] + COMMON + cf + ["-I", SHIM, "-I", cdir, "-I", inc, "-c",
                          os.path.join(cdir, "_phonopy.cpp"), "-o", os.path.join(odir, "_phonopy.cpp.o")])
            if mini:
                tasks.append(["gcc", "-std=gnu11"] + COMMON + ["-O1", "-g", "-fsanitize=thread", "-c",
                              os.path.join(SHIM, "minigomp.c"), "-o", os.path.join(odir, "minigomp.c.o")])
        with ThreadPoolExecutor(jobs) as ex:
            list(ex.map(_run, tasks))
        for v in todo:
            cf, lf, mini = VARIANTS[v]
            odir = os.path.join(bdir, v + ".tmp%d" % os.getpid())
            objs = [os.path.join(odir, s + ".o") for s in C_SOURCES + ["_phonopy.cpp"]]
            if mini:
                objs.append(os.path.join(odir, "minigomp.c.o"))
            _run(["g++", "-shared", "-o", os.path.join(odir, SO_NAME)] + objs + lf + ["-lm"])
            final = os.path.join(bdir, v)
            if os.path.exists(final):
                shutil.rmtree(odir)
            else:
                os.rename(odir, final)
        # prune old hashes (keep the 6 newest, and nothing touched during the last 3 hours: concurrent checks of scratch trees may be using them)
        root = os.path.join(CACHE, "build")
        ds = sorted((os.path.getmtime(os.path.join(root, d)), d) for d in os.listdir(root))
        import time
        for mt, d in ds[:-6]:
            if d != os.path.basename(bdir) and time.time() - mt > 3 * 3600:
                shutil.rmtree(os.path.join(root, d), ignore_errors=True)
    return {v: os.path.join(bdir, v, SO_NAME) for v in variants}


def gcc_lib(name):
    return subprocess.run(["gcc", "-print-file-name=" + name], capture_output=True, text=True).stdout.strip()


if __name__ == "__main__":
    vs = sys.argv[1:] or list(VARIANTS)
    import time
    t = time.time()
    print(ensure(vs))
    print("%.1fs" % (time.time() - t))
