"""M1 - kernel-boundary tap: a proxy module in place of phonopy._phonopy.

Per call it records the event (kernel, per-argument dtype/shape/flags), checks well-formedness against the C element types
parsed at run time from the cast lines of c/_phonopy.cpp, and optionally
  * re-homes every array argument next to PROT_NONE guard pages (out-of-bounds at any distance => SIGSEGV), or
  * re-executes the call on copies of the captured arguments with other thread counts and on the serial build and compares bitwise.
"""

from __future__ import annotations

import ctypes
import importlib
import importlib.util
import mmap
import os
import re
import sys
import types

import numpy as np

STATE = {"installed": False, "mode": set(), "calls": {}, "shapes": {}, "viol": [], "diff_calls": 0, "guard_calls": 0, "thread_sets": {}, "malformed": 0, "kernels": []}
_REAL = None
_SERIAL = None
_TABLE = None
PAGE = mmap.PAGESIZE
_libc = ctypes.CDLL(None, use_errno=True)
_KEEP = []  # keep mmaps alive while arrays reference them

CTYPE_NP = {"double": ("f", 8), "int64_t": ("i", 8), "int": ("i", 4), "char": ("iub", 1), "long": ("i", 8)}


def parse_cast_table(repo):
    """{kernel python name: [(arg index, param name, C base type or None for scalars)]} from the current c/_phonopy.cpp."""
    src = open(os.path.join(repo, "c", "_phonopy.cpp")).read()
    defs = dict(re.findall(r'm\.def\(\s*"(\w+)"\s*,\s*&?(\w+)\s*\)', src))
    table = {}
    for pyname, cname in defs.items():
        m = re.search(r"\b%s\s*\(([^)]*)\)\s*\{" % re.escape(cname), src)
        if not m:
            continue
        params = [p.strip() for p in m.group(1).replace("\n", " ").split(",") if p.strip()]
        # function body
        start = m.end()
        depth, i = 1, start
        while depth and i < len(src):
            depth += {"{": 1, "}": -1}.get(src[i], 0)
            i += 1
        body = src[start:i]
        ent = []
        for k, p in enumerate(params):
            name = p.split()[-1].lstrip("*&")
            if "ndarray" in p:
                cm = re.search(r"\(\s*(?:const\s+)?(\w+)\s*(?:\(\s*\*\s*\)\s*(?:\[\d+\])*|\*)\s*\)\s*%s\s*\.\s*data\s*\(" % re.escape(name), body)
                ent.append((k, name, cm.group(1) if cm else None))
            else:
                ent.append((k, name, "scalar"))
        table[pyname] = ent
    return table


def _guard_copy(a):
    """Copy array a into a fresh mmap region so that its last byte abuts a PROT_NONE page (and a guard page precedes it)."""
    nbytes = max(a.nbytes, 1)
    npages = (nbytes + PAGE - 1) // PAGE
    mm = mmap.mmap(-1, (npages + 2) * PAGE)
    addr = ctypes.addressof(ctypes.c_char.from_buffer(mm))
    if _libc.mprotect(ctypes.c_void_p(addr), PAGE, 0) != 0 or _libc.mprotect(ctypes.c_void_p(addr + (npages + 1) * PAGE), PAGE, 0) != 0:
        raise OSError("mprotect failed")
    item = a.dtype.itemsize
    off = PAGE + npages * PAGE - a.nbytes
    off -= off % max(item, 1)  # keep natural alignment (the end then abuts the guard page up to < itemsize bytes)
    b = np.frombuffer(mm, dtype=a.dtype, count=a.size, offset=off).reshape(a.shape)
    b[...] = a
    _KEEP.append(mm)
    return b


def _is_arr(x):
    return isinstance(x, np.ndarray)


def _wellformed(kernel, args):
    ent = (_TABLE or {}).get(kernel)
    if not ent:
        return
    for k, name, ctype in ent:
        if k >= len(args) or ctype in (None, "scalar"):
            continue
        a = args[k]
        if not _is_arr(a):
            continue
        kind, size = CTYPE_NP.get(ctype, (None, None))
        prob = None
        if a.size == 0:
            continue
        if not a.flags.c_contiguous:
            prob = "not C-contiguous"
        elif not a.flags.aligned:
            prob = "not aligned"
        elif ctype == "double" and a.dtype.kind == "c" and a.dtype.itemsize == 16:
            prob = None  # complex128 handed over as double[...][2]: the glue's deliberate layout
        elif kind and (a.dtype.kind not in kind or a.dtype.itemsize != size):
            prob = "dtype %s but the kernel reads %s" % (a.dtype, ctype)
        if prob:
            STATE["malformed"] += 1
            if len(STATE["viol"]) < 20:
                STATE["viol"].append({"kind": "malformed_kernel_argument", "kernel": kernel, "arg": name, "msg": "%s(%s): %s" % (kernel, name, prob)})


def _set_threads(n):
    try:
        lib = STATE.get("_gomp")
        if lib is None:
            lib = ctypes.CDLL("libgomp.so.1")
            STATE["_gomp"] = lib
        lib.omp_set_num_threads(int(n))
        return True
    except Exception:
        return False


def _wrap(kernel, fn):
    def wrapper(*args):
        STATE["calls"][kernel] = STATE["calls"].get(kernel, 0) + 1
        shp = tuple(a.shape if _is_arr(a) else None for a in args)
        ss = STATE["shapes"].setdefault(kernel, set())
        if len(ss) < 64:
            ss.add(shp)
        _wellformed(kernel, args)
        mode = STATE["mode"]
        if "diff" in mode and any(_is_arr(a) for a in args) and STATE["calls"][kernel] <= STATE.get("diff_per_kernel", 400):
            before = [a.copy() if _is_arr(a) else a for a in args]
            _set_threads(STATE.get("base_threads", 4))
            ret = fn(*args)
            after = [a.copy() if _is_arr(a) else a for a in args]
            variants = []
            for nt in STATE.get("thread_counts", (1, 2, 3, 5, 8, 16)):
                trial = [a.copy() if _is_arr(a) else a for a in before]
                _set_threads(nt)
                r2 = fn(*trial)
                variants.append(("threads=%d" % nt, trial, r2, 0))
            _set_threads(STATE.get("base_threads", 4))
            if _SERIAL is not None and hasattr(_SERIAL, kernel):
                trial = [a.copy() if _is_arr(a) else a for a in before]
                r2 = getattr(_SERIAL, kernel)(*trial)
                variants.append(("serial-build", trial, r2, 4))
            STATE["diff_calls"] += 1
            ts = STATE["thread_sets"].setdefault(kernel, set())
            for label, trial, r2, ulps in variants:
                ts.add(label)
                for k, (x, y) in enumerate(zip(after, trial)):
                    if not _is_arr(x):
                        continue
                    same = np.array_equal(x, y, equal_nan=True) if x.dtype.kind in "fc" else np.array_equal(x, y)
                    if not same and ulps and x.dtype.kind in "fc":
                        xr, yr = x.view(np.float64).ravel(), y.view(np.float64).ravel()
                        fin = np.isfinite(xr) & np.isfinite(yr)
                        tol = ulps * np.spacing(np.maximum(np.abs(xr[fin]), np.abs(yr[fin])))
                        # results of long sums may differ by re-association across builds: allow 4 ulp of the largest magnitude in the array as well
                        big = ulps * np.spacing(max(np.abs(xr[fin]).max() if fin.any() else 0.0, 1e-300)) * 64
                        same = bool((np.isfinite(xr) == np.isfinite(yr)).all() and (np.abs(xr[fin] - yr[fin]) <= np.maximum(tol, big)).all())
                    if not same and len(STATE["viol"]) < 20:
                        d = None
                        try:
                            d = float(np.nanmax(np.abs(x.astype(complex) - y.astype(complex)))) if x.dtype.kind in "fc" else int(np.abs(x.astype(np.int64) - y.astype(np.int64)).max())
                        except Exception:
                            pass
                        STATE["viol"].append({"kind": "kernel_result_depends_on_" + ("threads" if label.startswith("threads") else "build"), "kernel": kernel, "arg_index": k,
                                              "msg": "%s: argument %d differs between base run and %s (max abs diff %s)" % (kernel, k, label, d), "label": label})
                if r2 != ret and not (isinstance(ret, float) and isinstance(r2, float) and abs(ret - r2) <= 1e-15 * max(abs(ret), 1e-300)):
                    if len(STATE["viol"]) < 20:
                        STATE["viol"].append({"kind": "kernel_result_depends_on_" + ("threads" if label.startswith("threads") else "build"), "kernel": kernel,
                                              "msg": "%s: return value %r vs %r (%s)" % (kernel, ret, r2, label), "label": label})
            return ret
        if "guard" in mode and any(_is_arr(a) for a in args):
            homed = [_guard_copy(a) if _is_arr(a) else a for a in args]
            STATE["guard_calls"] += 1
            ret = fn(*homed)
            for a, h in zip(args, homed):
                if _is_arr(a) and a.flags.writeable:
                    a[...] = h
            del homed
            if len(_KEEP) > 256:
                del _KEEP[:128]
            return ret
        return fn(*args)

    wrapper.__name__ = kernel
    return wrapper


def install(mode=(), repo=None, serial_so=None, thread_counts=None, base_threads=None):
    """Replace phonopy._phonopy by the proxy (idempotent)."""
    global _REAL, _SERIAL, _TABLE
    if STATE["installed"]:
        STATE["mode"] = set(mode)
        return
    import phonopy

    _REAL = importlib.import_module("phonopy._phonopy")
    repo = repo or os.environ.get("VERIF_REPO", "/repo")
    try:
        _TABLE = parse_cast_table(repo)
    except Exception as e:
        _TABLE = {}
        STATE["table_error"] = repr(e)
    if serial_so and os.path.exists(serial_so):
        spec = importlib.util.spec_from_file_location("phonopy._phonopy", serial_so)
        _SERIAL = importlib.util.module_from_spec(spec)
        spec.loader.exec_module(_SERIAL)
    if thread_counts:
        STATE["thread_counts"] = tuple(thread_counts)
    if base_threads:
        STATE["base_threads"] = base_threads
    proxy = types.ModuleType("phonopy._phonopy")
    proxy.__file__ = getattr(_REAL, "__file__", None)
    names = [n for n in dir(_REAL) if not n.startswith("_")]
    STATE["kernels"] = [n for n in names if n not in ("use_openmp", "omp_max_threads")]
    for n in names:
        obj = getattr(_REAL, n)
        setattr(proxy, n, _wrap(n, obj) if callable(obj) and n not in ("use_openmp", "omp_max_threads") else obj)
    sys.modules["phonopy._phonopy"] = proxy
    phonopy._phonopy = proxy
    STATE["installed"] = True
    STATE["mode"] = set(mode)


def drain():
    v = list(STATE["viol"])
    del STATE["viol"][:]
    return v


def summary():
    return {
        "kernel_calls": dict(STATE["calls"]),
        "kernel_distinct_shapes": {k: len(v) for k, v in STATE["shapes"].items()},
        "kernel_shape_samples": {k: sorted(str(x) for x in v)[:40] for k, v in STATE["shapes"].items()},
        "kernels_exported": list(STATE["kernels"]),
        "diff_calls": STATE["diff_calls"],
        "guard_calls": STATE["guard_calls"],
        "diff_labels": {k: sorted(v) for k, v in STATE["thread_sets"].items()},
        "malformed_arguments": STATE["malformed"],
        "cast_table_kernels": len(_TABLE or {}),
    }
