"""M3 - always-on runtime contracts (icontract post-conditions on the real classes).

Conditions are named functions; they *record* a violation (drained by the worker after each
case) and return True, so that a contract never changes what the code under test does.
Each evaluation is counted; zero evaluations of a contract a check relies on => inconclusive.
"""

from __future__ import annotations

import os
import sys

import numpy as np

_COUNT = {}
_PENDING = []
_INSTALLED = False
_MAX_PENDING = 50


class ContractBroken(Exception):
    def __init__(self, kind, msg, **feat):
        super().__init__(msg)
        self.kind, self.msg, self.feat = kind, msg, feat

    def as_violation(self):
        d = {"kind": self.kind, "msg": self.msg, "via": "contract"}
        d.update(self.feat)
        return d


def counters():
    return dict(_COUNT)


def drain_violations():
    out = list(_PENDING)
    del _PENDING[:]
    return out


def _bump(name):
    _COUNT[name] = _COUNT.get(name, 0) + 1


def _record(kind, msg, **feat):
    if len(_PENDING) < _MAX_PENDING:
        d = {"kind": kind, "msg": msg, "via": "contract"}
        d.update(feat)
        _PENDING.append(d)


# ----------------------------------------------------------------------------- tiling oracle
def _adj_int(S):
    """Integer adjugate of a 3x3 integer matrix (det * inverse)."""
    S = np.array(S, dtype=object)
    c = [[None] * 3 for _ in range(3)]
    for i in range(3):
        for j in range(3):
            r = [k for k in range(3) if k != i]
            q = [k for k in range(3) if k != j]
            minor = S[r[0]][q[0]] * S[r[1]][q[1]] - S[r[0]][q[1]] * S[r[1]][q[0]]
            c[j][i] = (-1) ** (i + j) * minor
    return np.array(c, dtype=object)


def _det_int(S):
    S = [[int(x) for x in r] for r in np.array(S)]
    return (S[0][0] * (S[1][1] * S[2][2] - S[1][2] * S[2][1]) - S[0][1] * (S[1][0] * S[2][2] - S[1][2] * S[2][0])
            + S[0][2] * (S[1][0] * S[2][1] - S[1][1] * S[2][0]))


def _same_optional(a, b, tol=1e-12):
    if a is None and b is None:
        return True
    if a is None or b is None:
        return False
    return bool(np.allclose(np.asarray(a, float), np.asarray(b, float), rtol=0, atol=tol))


def supercell_tiling_problems(sc, unitcell, smat, tol=1e-8):
    """Return list of (kind, msg) for a built Supercell; [] when it is an exact tiling."""
    probs = []
    S = np.array(smat)
    if S.shape != (3, 3):
        from phonopy.structure.cells import shape_supercell_matrix
        S = shape_supercell_matrix(S)
    S = np.rint(S).astype(int)
    det = _det_int(S)
    nu = len(unitcell)
    if len(sc) == 0:
        return probs  # the constructor refused (empty cell); legitimacy judged by the dedicated check
    L = np.array(unitcell.cell, float)
    Ls = np.array(sc.cell, float)
    want = S.T @ L
    scale = np.abs(want).max()
    if np.abs(Ls - want).max() > 1e-10 * scale:
        probs.append(("lattice", "supercell lattice != S^T L (max dev %.3e)" % np.abs(Ls - want).max()))
    if det <= 0 or len(sc) != abs(det) * nu:
        probs.append(("count", "len(supercell)=%d != |det S|*n_u=%d" % (len(sc), abs(det) * nu)))
        return probs
    s2u, u2s, u2u = sc.s2u_map, sc.u2s_map, sc.u2u_map
    if s2u is None or u2s is None or u2u is None:
        probs.append(("maps", "index maps missing"))
        return probs
    s2u = np.asarray(s2u)
    u2s = np.asarray(u2s)
    if len(s2u) != len(sc) or len(u2s) != nu:
        probs.append(("maps", "index maps have wrong lengths"))
        return probs
    if not all(int(s2u[u2s[i]]) == int(u2s[i]) and u2u.get(int(u2s[i])) == i for i in range(nu)):
        probs.append(("maps", "u2s/s2u/u2u maps are mutually inconsistent"))
        return probs
    if not set(int(x) for x in s2u) <= set(int(x) for x in u2s):
        probs.append(("maps", "s2u_map has values outside u2s_map"))
        return probs
    xs = np.array(sc.scaled_positions, float)
    xu = np.array(unitcell.scaled_positions, float)
    uidx = np.array([u2u[int(k)] for k in s2u])
    d = xs @ S.T - xu[uidx]
    n = np.rint(d)
    if np.abs(d - n).max() > tol:
        probs.append(("position", "supercell atom is not unit-cell atom + lattice vector (max dev %.3e)" % np.abs(d - n).max()))
        return probs
    sym_s, sym_u = list(sc.symbols), list(unitcell.symbols)
    if any(sym_s[k] != sym_u[uidx[k]] for k in range(len(sc))):
        probs.append(("species", "species of an image differs from its unit-cell atom"))
    if unitcell.masses is not None:
        if sc.masses is None or not np.allclose(np.asarray(sc.masses), np.asarray(unitcell.masses)[uidx], rtol=0, atol=1e-12):
            probs.append(("mass", "mass of an image differs from its unit-cell atom"))
    mu = unitcell.magnetic_moments
    if mu is not None:
        ms = sc.magnetic_moments
        if ms is None or not np.allclose(np.asarray(ms, float), np.asarray(mu, float)[uidx], rtol=0, atol=1e-12):
            probs.append(("magmom", "magnetic moment of an image differs from its unit-cell atom"))
    # images of one atom pairwise distinct modulo the supercell lattice: n @ adj(S^T) mod det
    adjT = _adj_int(S.T)
    n_int = n.astype(int).astype(object)
    key = (n_int @ adjT) % det
    for u in range(nu):
        ks = set(tuple(int(v) for v in row) for row in key[uidx == u])
        if len(ks) != abs(det) or (uidx == u).sum() != abs(det):
            probs.append(("duplicate", "unit atom %d has %d distinct images among %d (need %d)" % (u, len(ks), int((uidx == u).sum()), abs(det))))
            break
    return probs


def primitive_tiling_problems(prim, supercell, pmat, symprec=1e-5):
    probs = []
    P = np.array(pmat, float)
    Ls = np.array(supercell.cell, float)
    Lp = np.array(prim.cell, float)
    want = P.T @ Ls
    if np.abs(Lp - want).max() > 1e-10 * np.abs(Ls).max():
        probs.append(("lattice", "primitive lattice != P^T L_s (max dev %.3e)" % np.abs(Lp - want).max()))
    detP = np.linalg.det(P)
    N = int(np.rint(1.0 / detP)) if abs(detP) > 1e-12 else 0
    if N <= 0 or len(prim) * N != len(supercell):
        probs.append(("count", "len(primitive)*N=%d*%d != len(supercell)=%d" % (len(prim), N, len(supercell))))
        return probs
    p2s, s2p, p2p = prim.p2s_map, prim.s2p_map, prim.p2p_map
    if p2s is None or s2p is None or p2p is None:
        probs.append(("maps", "maps missing"))
        return probs
    p2s = np.asarray(p2s)
    s2p = np.asarray(s2p)
    npr = len(prim)
    if len(p2s) != npr or len(s2p) != len(supercell):
        probs.append(("maps", "map lengths wrong"))
        return probs
    if not all(int(s2p[p2s[i]]) == int(p2s[i]) and p2p.get(int(p2s[i])) == i for i in range(npr)):
        probs.append(("maps", "p2s/s2p/p2p maps mutually inconsistent"))
        return probs
    if not set(int(x) for x in s2p) <= set(int(x) for x in p2s):
        probs.append(("maps", "s2p_map has values outside p2s_map"))
        return probs
    pidx = np.array([p2p[int(k)] for k in s2p])
    xs = np.array(supercell.scaled_positions, float)
    xp = np.array(prim.scaled_positions, float)
    d = xs @ np.linalg.inv(P).T - xp[pidx]
    n = np.rint(d)
    cart = np.linalg.norm((d - n) @ Lp, axis=1)
    if cart.max() > max(symprec, 1e-8):
        probs.append(("position", "supercell atom is not primitive atom + primitive lattice vector (max dev %.3e)" % cart.max()))
        return probs
    sym_s, sym_p = list(supercell.symbols), list(prim.symbols)
    if any(sym_s[k] != sym_p[pidx[k]] for k in range(len(supercell))):
        probs.append(("species", "species mismatch between supercell atom and its primitive atom"))
    if supercell.masses is not None and (prim.masses is None or not np.allclose(np.asarray(supercell.masses), np.asarray(prim.masses)[pidx], rtol=0, atol=1e-12)):
        probs.append(("mass", "mass mismatch between supercell atom and its primitive atom"))
    if supercell.magnetic_moments is not None:
        mp = prim.magnetic_moments
        if mp is None or not np.allclose(np.asarray(supercell.magnetic_moments, float), np.asarray(mp, float)[pidx], rtol=0, atol=1e-12):
            probs.append(("magmom", "magnetic moment mismatch between supercell atom and its primitive atom"))
    for p in range(npr):
        if (pidx == p).sum() != N:
            probs.append(("count", "sublattice %d has %d atoms, need %d" % (p, int((pidx == p).sum()), N)))
            return probs
    # pure-translation permutations
    perms = prim.atomic_permutations
    if perms is None:
        probs.append(("perm", "atomic_permutations missing"))
        return probs
    perms = np.asarray(perms)
    ns = len(supercell)
    if perms.shape != (N, ns):
        probs.append(("perm", "atomic_permutations shape %s != (%d,%d)" % (perms.shape, N, ns)))
        return probs
    srt = np.sort(perms, axis=1)
    if not (srt == np.arange(ns)[None, :]).all():
        probs.append(("perm", "a row of atomic_permutations is not a permutation"))
        return probs
    rows = set(map(bytes, np.ascontiguousarray(perms.astype(np.int64))))
    if np.arange(ns, dtype=np.int64).tobytes() not in rows:
        probs.append(("perm", "identity missing from atomic_permutations"))
    if len(rows) != N:
        probs.append(("perm", "atomic_permutations has duplicate rows"))
    # same lattice vector for every atom in a row; sublattice preserved
    for t in range(N):
        dd = xs[perms[t]] - xs
        dd -= dd[0]
        dd -= np.rint(dd)
        if np.linalg.norm(dd @ Ls, axis=1).max() > max(10 * symprec, 1e-6):
            probs.append(("perm", "row %d of atomic_permutations does not move all atoms by one lattice vector" % t))
            break
        if (pidx[perms[t]] != pidx).any():
            probs.append(("perm", "row %d of atomic_permutations mixes sublattices" % t))
            break
    # simply transitive on each sublattice
    for k in range(0, ns, max(1, ns // 7)):
        orb = set(int(v) for v in perms[:, k])
        if len(orb) != N:
            probs.append(("perm", "translations do not act simply transitively (atom %d has orbit %d of %d)" % (k, len(orb), N)))
            break
    # closure
    p64 = perms.astype(np.int64)
    pairs = [(a, b) for a in range(N) for b in range(N)]
    if len(pairs) > 1024:
        rng = np.random.default_rng(12345)
        pairs = [pairs[i] for i in rng.choice(len(pairs), 1024, replace=False)]
    for a, b in pairs:
        if p64[a][p64[b]].tobytes() not in rows:
            probs.append(("perm", "atomic_permutations not closed under composition (%d o %d)" % (a, b)))
            break
    return probs


# ----------------------------------------------------------------------------- conditions
def supercell_is_exact_tiling(self, unitcell, supercell_matrix):
    _bump("Supercell.__init__")
    try:
        probs = supercell_tiling_problems(self, unitcell, supercell_matrix)
    except Exception as e:  # an oracle bug must not look like a violation
        _bump("oracle_error.Supercell")
        _COUNT["oracle_error_last"] = repr(e)[:200]
        return True
    if probs:
        S = np.array(supercell_matrix)
        for kind, msg in probs[:3]:
            _record("tiling_supercell_" + kind, msg, algorithm="old" if self._is_old_style else "snf",
                    matrix=np.array(S).tolist(),
                    matrix_is_symmetric=bool(np.array_equal(np.array(S), np.array(S).T)) if np.array(S).shape == (3, 3) else True,
                    n_unit=len(unitcell))
    return True


def primitive_tiles_supercell(self, supercell, primitive_matrix):
    _bump("Primitive.__init__")
    try:
        probs = primitive_tiling_problems(self, supercell, primitive_matrix, symprec=self._symprec)
    except Exception as e:
        _bump("oracle_error.Primitive")
        _COUNT["oracle_error_last"] = repr(e)[:200]
        return True
    for kind, msg in probs[:3]:
        _record("tiling_primitive_" + kind, msg, pmat=np.array(primitive_matrix).tolist(), n_super=len(supercell))
    return True


def commensurate_points_are_exact(supercell_matrix, result):
    _bump("get_commensurate_points")
    try:
        S = np.rint(np.array(supercell_matrix)).astype(int)
        det = abs(_det_int(S))
        q = np.array(result, float)
        bad = None
        if q.shape != (det, 3):
            bad = "count %s != |det S| = %d" % (q.shape, det)
        else:
            sq = q @ S  # (S^T q)^T = q^T S
            if np.abs(sq - np.rint(sq)).max() > 1e-8:
                bad = "S^T q not integral (max dev %.2e)" % np.abs(sq - np.rint(sq)).max()
            else:
                # distinct modulo 1: compare q mod 1 on the exact grid of denominators det
                f = (q - np.floor(q + 1e-9)) * det
                g = np.rint(f).astype(int) % det
                if np.abs(f - np.rint(f)).max() > 1e-6:
                    bad = "q is not a multiple of 1/det"
                elif len(set(map(tuple, g))) != det:
                    bad = "points not pairwise distinct modulo reciprocal lattice vectors"
        if bad:
            _record("commensurate_points", bad, matrix=S.tolist())
    except Exception as e:
        _bump("oracle_error.commensurate")
        _COUNT["oracle_error_last"] = repr(e)[:200]
    return True


def commensurate_points_in_integers_are_exact(supercell_matrix, result):
    _bump("get_commensurate_points_in_integers")
    try:
        S = np.rint(np.array(supercell_matrix)).astype(int)
        det = abs(_det_int(S))
        qi = np.array(result)
        bad = None
        if qi.shape != (det, 3):
            bad = "count %s != |det S| = %d" % (qi.shape, det)
        else:
            # result is q * det (integers); S^T q integral <=> (qi @ S) % det == 0
            if ((qi.astype(np.int64) @ S) % det != 0).any():
                bad = "S^T q not integral"
            elif len(set(map(tuple, qi % det))) != det:
                bad = "points not pairwise distinct modulo reciprocal lattice vectors"
        if bad:
            _record("commensurate_points", bad, matrix=S.tolist(), integers=True)
    except Exception as e:
        _bump("oracle_error.commensurate")
        _COUNT["oracle_error_last"] = repr(e)[:200]
    return True


def gridpoints_weights_account_for_grid(self):
    _bump("GridPoints.__init__")
    try:
        mesh = np.array(self.mesh_numbers, dtype=int)
        w = np.array(self.weights)
        if int(w.sum()) != int(np.prod(mesh)):
            _record("grid_weights", "weights sum %d != prod(mesh) %d" % (int(w.sum()), int(np.prod(mesh))), mesh=mesh.tolist())
        if (w <= 0).any():
            _record("grid_weights", "non-positive weight", mesh=mesh.tolist())
        gm = self.grid_mapping_table
        if gm is not None:
            gm = np.array(gm)
            ir = np.array(self.ir_grid_points)
            cnt = np.bincount(gm, minlength=int(np.prod(mesh)))
            if len(gm) != int(np.prod(mesh)) or not np.array_equal(cnt[ir], w) or cnt.sum() != cnt[ir].sum():
                _record("grid_weights", "weights are not the multiplicities of the grid mapping table", mesh=mesh.tolist())
    except Exception as e:
        _bump("oracle_error.GridPoints")
        _COUNT["oracle_error_last"] = repr(e)[:200]
    return True


def thermal_properties_are_sane(self):
    _bump("ThermalProperties.run")
    try:
        tp = self.thermal_properties
        if tp is None or getattr(self, "_classical", False):
            return True  # classical entropy k(1 - ln(h nu / kT)) is legitimately negative at low T
        T, F, S, Cv = [np.array(x, float) for x in tp[:4]]
        # NaN for h nu / kT > ~709 is listed/decided by C10 itself; here only sign sanity on finite values
        nm = max(1, int(getattr(self, "number_of_modes", 1) or 1))
        from phonopy.units import Kb, EvTokJmol
        kb = Kb * EvTokJmol * 1000  # J/K/mol
        fin = np.isfinite(S)
        if (S[fin] < -1e-9 * kb * nm).any():
            _record("thermal_sign", "negative entropy %.3e" % S[fin].min())
        fin = np.isfinite(Cv)
        if (Cv[fin] < -1e-9 * kb * nm).any():
            _record("thermal_sign", "negative heat capacity %.3e" % Cv[fin].min())
    except Exception as e:
        _bump("oracle_error.ThermalProperties")
        _COUNT["oracle_error_last"] = repr(e)[:200]
    return True


def shortest_pairs_are_images(self):
    """Light always-on part of C05: every stored vector is a periodic image of the pair separation, the stored vectors of a pair
    have equal length within the tolerance and are distinct, multiplicities lie in 1..27. (Completeness is decided by C05's brute force.)"""
    _bump("ShortestPairs.__init__")
    try:
        sv, mu = self._smallest_vectors, self._multiplicities
        xs, xp = np.asarray(self._supercell_pos, float), np.asarray(self._primitive_pos, float)
        L = np.asarray(self._supercell_bases, float)
        dense = mu.ndim == 3
        ns, npr = len(xs), len(xp)
        if ns * npr > 4000:
            idx = np.random.default_rng(7).choice(ns * npr, 4000, replace=False)
        else:
            idx = np.arange(ns * npr)
        tol = max(self._symprec, 1e-8)
        for k in idx:
            i, j = divmod(int(k), npr)
            if dense:
                m, adr = int(mu[i, j, 0]), int(mu[i, j, 1])
                v = sv[adr:adr + m]
            else:
                m = int(mu[i, j])
                v = sv[i, j, :m]
            if not 1 <= m <= 27:
                _record("svecs_contract", "multiplicity %d outside 1..27 for pair (%d,%d)" % (m, i, j))
                break
            d = v - (xs[i] - xp[j])
            if np.abs(d - np.rint(d)).max() > 1e-6:
                _record("svecs_contract", "stored vector of pair (%d,%d) is not a periodic image of the separation" % (i, j))
                break
            ln = np.linalg.norm(v @ L, axis=1)
            if ln.max() - ln.min() > 2 * tol:
                _record("svecs_contract", "stored vectors of pair (%d,%d) differ in length by %.3e" % (i, j, ln.max() - ln.min()))
                break
            if m > 1 and min(np.linalg.norm(v[a] - v[b]) for a in range(m) for b in range(a + 1, m)) < 1e-8:
                _record("svecs_contract", "duplicate stored vector for pair (%d,%d)" % (i, j))
                break
    except Exception as e:
        _bump("oracle_error.ShortestPairs")
        _COUNT["oracle_error_last"] = repr(e)[:200]
    return True


class _Broken(Exception):
    pass


def install():
    """Attach the post-conditions to the class attributes (so no earlier-bound name bypasses them)."""
    global _INSTALLED
    if _INSTALLED:
        return
    _INSTALLED = True
    import icontract
    from phonopy.structure import cells

    cells.Supercell.__init__ = icontract.ensure(supercell_is_exact_tiling, error=_Broken)(cells.Supercell.__init__)
    cells.Primitive.__init__ = icontract.ensure(primitive_tiles_supercell, error=_Broken)(cells.Primitive.__init__)
    cells.ShortestPairs.__init__ = icontract.ensure(shortest_pairs_are_images, error=_Broken)(cells.ShortestPairs.__init__)
    try:
        from phonopy.harmonic import dynmat_to_fc

        wrapped = icontract.ensure(commensurate_points_are_exact, error=_Broken)(dynmat_to_fc.get_commensurate_points)
        wrapped_i = icontract.ensure(commensurate_points_in_integers_are_exact, error=_Broken)(dynmat_to_fc.get_commensurate_points_in_integers)
        _rebind_everywhere(dynmat_to_fc.get_commensurate_points, wrapped)
        _rebind_everywhere(dynmat_to_fc.get_commensurate_points_in_integers, wrapped_i)
    except Exception as e:
        _COUNT["install_error_commensurate"] = repr(e)[:200]
    try:
        from phonopy.structure import grid_points

        grid_points.GridPoints.__init__ = icontract.ensure(gridpoints_weights_account_for_grid, error=_Broken)(grid_points.GridPoints.__init__)
    except Exception as e:
        _COUNT["install_error_grid"] = repr(e)[:200]
    try:
        from phonopy.phonon import thermal_properties

        thermal_properties.ThermalProperties.run = icontract.ensure(thermal_properties_are_sane, error=_Broken)(thermal_properties.ThermalProperties.run)
    except Exception as e:
        _COUNT["install_error_thermal"] = repr(e)[:200]


def _rebind_everywhere(old, new):
    """Module-level functions may have been imported by name elsewhere: rebind every alias."""
    for m in list(sys.modules.values()):
        if m is None or not getattr(m, "__name__", "").startswith("phonopy"):
            continue
        for k, v in list(vars(m).items()):
            if v is old:
                setattr(m, k, new)
    # modules imported later bind the new object because the defining module was patched above
