"""Random NAC parameters: neutral Born charges and SPD dielectric tensor with the primitive cell's symmetry
(group average computed by the harness on its own spglib call, not by phonopy's symmetriser)."""

from __future__ import annotations

import numpy as np

from . import models, setup


def group_average_born_eps(pr, Z, eps):
    L = np.array(pr.cell, float)
    x = np.array(pr.scaled_positions, float)
    rots, trans = models.symmetry_ops(L, x, setup.numbers_of(pr.symbols), magmoms=pr.magnetic_moments)
    Lt = L.T
    Zs = np.zeros_like(Z)
    es = np.zeros_like(eps)
    for R, t in zip(rots, trans):
        perm = models.op_permutation(L, x, R, t)
        Rc = Lt @ R @ np.linalg.inv(Lt)
        Zr = np.einsum("ab,jbc,dc->jad", Rc, Z, Rc)
        tmp = np.zeros_like(Z)
        tmp[perm] = Zr
        Zs += tmp
        es += Rc @ eps @ Rc.T
    Zs /= len(rots)
    es /= len(rots)
    Zs -= Zs.mean(axis=0, keepdims=True)  # neutrality (commutes with the group average)
    return Zs, (es + es.T) / 2


def random_nac(ph, rng, method="wang", factor=14.399652, zero=False):
    pr = ph.primitive
    n = len(pr)
    Z = rng.standard_normal((n, 3, 3)) + 2.0 * np.array([np.eye(3) * (1 if i % 2 == 0 else -1) for i in range(n)])
    A = rng.standard_normal((3, 3))
    eps = A @ A.T + 3.0 * np.eye(3)
    Z, eps = group_average_born_eps(pr, Z, eps)
    if zero:
        Z = np.zeros_like(Z)
    return {"born": np.array(Z, dtype="double", order="C"), "dielectric": np.array(eps, dtype="double", order="C"), "factor": float(factor), "method": method}


def bz_reduce(q, pcell, near=False):
    """Harness' own reduction of a reduced q to the first Brillouin zone: (shortest representative, number of ties).

    near=True counts what phonopy's BrillouinZone class counts as ties (squared length within 0.01 x the smallest squared reciprocal basis
    length of the minimum): the Gonze-Lee construction takes the FIRST of those images, which need not be the shortest one, so a q with
    near-ties may be evaluated at another image than the one the short-range constants were built from (thorough sweep, seed 0, triclinic
    4x2x2: images 0.4 % apart in squared length, deviation 2.5e-6 = the reciprocal-sum precision)."""
    import itertools

    rec = np.linalg.inv(np.array(pcell, float))  # columns: reciprocal basis (no 2pi)
    q = np.array(q, float)
    q = q - np.rint(q)
    best, reps = None, []
    for G in itertools.product(range(-2, 3), repeat=3):
        qq = q + np.array(G)
        ln = np.linalg.norm(rec @ qq)
        if best is None or ln < best - 1e-8:
            best, reps = ln, [qq]
        elif abs(ln - best) <= 1e-8:
            reps.append(qq)
    if near:
        tol2 = 0.01 * float(np.min(np.sum(rec ** 2, axis=0)))
        n_near = sum(1 for G in itertools.product(range(-2, 3), repeat=3) if np.linalg.norm(rec @ (q + np.array(G))) ** 2 < best ** 2 + tol2)
        return reps[0], max(len(reps), n_near)
    return reps[0], len(reps)


def dd_scale(pr, nacp):
    """Magnitude of the dipole-dipole term: (4 pi / V) f max|Z|^2 / min eig(eps) / min mass."""
    Z, eps = np.array(nacp["born"]), np.array(nacp["dielectric"])
    return float(4 * np.pi / pr.volume * nacp["factor"] * np.abs(Z).max() ** 2 / np.linalg.eigvalsh((eps + eps.T) / 2).min() / np.min(pr.masses))


def gl_offzone_tolerance(pr, nacp, fscale):
    """Gonze-Lee away from the first-BZ representative used in its construction: the reciprocal sum is cut where
    exp(-G.eps.G/4L^2) = 1e-10 for the *isotropic average* of eps (code: GeG = G_cutoff^2 tr(eps)/3); along the softest principal
    axis the neglected terms are 1e-10^(eps_min/eps_avg). Tolerance = (1e-3 + 30 x that) x dipole-dipole scale, capped at 5 %."""
    eps = np.array(nacp["dielectric"], float)
    ev = np.linalg.eigvalsh((eps + eps.T) / 2)
    r = float(ev.min() / ev.mean())
    rel = min(0.05, 1e-3 + 30 * 10 ** (-10 * r))
    return rel * max(fscale, dd_scale(pr, nacp)), r
