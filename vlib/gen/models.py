"""Harmonic reference models built by the harness (nothing from phonopy's FC code is used).

pair_fc           : supercell force constants of a pair-spring crystal (sum over all periodic images)
exact_dm          : the same crystal's dynamical matrix by direct infinite-lattice Fourier sum
symmetry_ops      : spglib operations of a cell (all operations of the magnetic space group when magnetic)
project_ops       : random array projected onto (space group) x (index permutation) x (translational sum rules)
group_residual    : how far an array is from invariance under given operations
"""

from __future__ import annotations

import itertools

import numpy as np


def species_key(sym):
    """Extended symbols (Cl1) count as their own species for the model."""
    return sym


def _kpair(a, b):
    """Deterministic species-pair stiffness, symmetric in (a,b)."""
    import zlib

    k = "|".join(sorted((a, b)))
    h = zlib.crc32(k.encode()) % 1000
    return 0.8 + 2.4 * h / 1000.0


def kfun(a, b, r, r0=2.2, cutoff=None, transverse=0.17):
    """Longitudinal and transverse spring constants; tapered so that they vanish continuously at the cutoff
    (a pair sitting exactly at the cutoff distance then contributes nothing whichever way round-off decides)."""
    base = _kpair(a, b)
    g = np.exp(-((r / r0) ** 2)) * 4.0
    if cutoff is not None:
        g = g * np.clip(1.0 - (r / cutoff) ** 2, 0.0, None) ** 2
    return base * g, transverse * base * g


def image_vectors(L, cutoff):
    rec = np.linalg.inv(L).T  # rows: reciprocal vectors (no 2pi)
    nmax = [int(np.ceil(cutoff * np.linalg.norm(rec[i]))) + 1 for i in range(3)]
    T = np.array(list(itertools.product(*[range(-m, m + 1) for m in nmax])), dtype=float)
    return T @ L


def pair_fc(cell, positions_frac, symbols, cutoff, r0=2.2, transverse=0.17):
    """Full supercell FC (n,n,3,3): every periodic image within cutoff contributes; ASR on the diagonal.
    transverse=0 gives a pure central-force (bond-stretching) network: many force components are then exactly zero."""
    L = np.array(cell, float)
    x = np.array(positions_frac, float)
    n = len(x)
    pos = x @ L
    Ts = image_vectors(L, cutoff)
    fc = np.zeros((n, n, 3, 3))
    sp = list(symbols)
    eye = np.eye(3)
    for i in range(n):
        d = pos[None, :, :] - pos[i][None, None, :] + Ts[:, None, :]  # (nT, n, 3)
        r = np.linalg.norm(d, axis=2)
        m = (r > 1e-8) & (r < cutoff)
        for j in range(n):
            mj = m[:, j]
            if not mj.any():
                continue
            dd = d[mj, j]
            rr = r[mj, j]
            kl, kt = kfun(sp[i], sp[j], rr, r0, cutoff, transverse)
            u = dd / rr[:, None]
            uu = np.einsum("ta,tb->tab", u, u)
            fc[i, j] -= np.einsum("t,tab->ab", kl - kt, uu) + kt.sum() * eye
    for i in range(n):
        fc[i, i] = 0
        fc[i, i] = -fc[i].sum(axis=0)
    return fc


def count_shells(cell, positions_frac, cutoff):
    L = np.array(cell, float)
    pos = np.array(positions_frac, float) @ L
    Ts = image_vectors(L, cutoff)
    d = pos[None, :, :] - pos[0][None, None, :] + Ts[:, None, :]
    r = np.linalg.norm(d, axis=2).ravel()
    r = r[(r > 1e-8) & (r < cutoff)]
    return len(set(np.round(r, 4)))


def exact_dm(pcell, ppos, psym, masses, cutoff, q, r0=2.2):
    """Infinite-crystal dynamical matrix of the pair model at reduced q (w.r.t. primitive reciprocal basis).

    D(jj',q) = (m_j m_j')^-1/2 sum_l Phi(j0,j'l) exp(2 pi i q.[r(j'l)-r(j0)])
    """
    L = np.array(pcell, float)
    pos = np.array(ppos, float) @ L
    n = len(pos)
    m = np.array(masses, float)
    Ts = image_vectors(L, cutoff)
    qc = np.linalg.inv(L) @ np.array(q, float)  # Cartesian q (no 2pi)
    D = np.zeros((3 * n, 3 * n), complex)
    eye = np.eye(3)
    for i in range(n):
        self_term = np.zeros((3, 3))
        for j in range(n):
            d = pos[j] - pos[i] + Ts
            r = np.linalg.norm(d, axis=1)
            msk = (r > 1e-8) & (r < cutoff)
            if not msk.any():
                continue
            dd, rr = d[msk], r[msk]
            kl, kt = kfun(psym[i], psym[j], rr, r0, cutoff)
            u = dd / rr[:, None]
            phi = -(np.einsum("t,ta,tb->tab", kl - kt, u, u) + kt[:, None, None] * eye)
            ph = np.exp(2j * np.pi * (dd @ qc))
            D[3 * i:3 * i + 3, 3 * j:3 * j + 3] += np.einsum("t,tab->ab", ph, phi) / np.sqrt(m[i] * m[j])
            self_term -= phi.sum(axis=0)
        D[3 * i:3 * i + 3, 3 * i:3 * i + 3] += self_term / m[i]
    return D


class SpglibFailed(Exception):
    pass


def symmetry_ops(cell, positions, numbers, magmoms=None, symprec=1e-5):
    """(rotations, translations) in fractional coordinates; for magnetic cells ALL operations of the
    magnetic space group (including those combined with time reversal) - this is what phonopy assumes."""
    import spglib

    L = np.array(cell, float)
    x = np.array(positions, float)
    if magmoms is None:
        ds = spglib.get_symmetry_dataset((L, x, numbers), symprec=symprec)
        if ds is None:
            raise SpglibFailed("get_symmetry_dataset returned None")
        return np.array(ds.rotations), np.array(ds.translations)
    ds = spglib.get_magnetic_symmetry_dataset((L, x, numbers, np.array(magmoms, float)), symprec=symprec)
    if ds is None:
        raise SpglibFailed("get_magnetic_symmetry_dataset returned None")
    return np.array(ds.rotations), np.array(ds.translations)


def op_permutation(L, x, R, t, tol=1e-4):
    y = x @ R.T + t
    d = y[:, None, :] - x[None, :, :]
    d -= np.rint(d)
    dist = np.linalg.norm(d @ L, axis=2)
    perm = dist.argmin(axis=1)
    if not (dist[np.arange(len(x)), perm] < tol).all() or len(set(perm)) != len(x):
        raise ValueError("operation does not map the crystal onto itself")
    return perm


def apply_op(fc, L, x, R, t):
    """Image of fc under the operation: fc'[perm(i),perm(j)] = Rc fc[i,j] Rc^T."""
    perm = op_permutation(L, x, R, t)
    Lt = L.T
    Rc = Lt @ R @ np.linalg.inv(Lt)
    rot = np.einsum("ab,ijbc,dc->ijad", Rc, fc, Rc)
    out = np.zeros_like(fc)
    out[np.ix_(perm, perm)] = rot
    return out


def project_ops(L, x, rots, trans, rng, decay=None):
    """Random (n,n,3,3) array projected onto space-group invariance, index permutation symmetry and both sum rules."""
    n = len(x)
    fc = rng.standard_normal((n, n, 3, 3))
    if decay is not None:
        # make far pairs weaker (minimum image distance), still fully general in shape
        d = x[:, None, :] - x[None, :, :]
        d -= np.rint(d)
        r = np.linalg.norm(d @ L, axis=2)
        fc *= np.exp(-r / decay)[:, :, None, None]
    out = np.zeros_like(fc)
    for R, t in zip(rots, trans):
        out += apply_op(fc, L, x, R, t)
    out /= len(rots)
    out = (out + out.transpose(1, 0, 3, 2)) / 2
    r = out.sum(axis=1, keepdims=True) / n
    c = out.sum(axis=0, keepdims=True) / n
    s = out.sum(axis=(0, 1), keepdims=True) / n ** 2
    return out - r - c + s


def group_residual(fc, L, x, rots, trans, max_ops=None):
    worst = 0.0
    ops = list(zip(rots, trans))
    if max_ops is not None and len(ops) > max_ops:
        idx = np.linspace(0, len(ops) - 1, max_ops).astype(int)
        ops = [ops[i] for i in idx]
    for R, t in ops:
        worst = max(worst, np.abs(apply_op(fc, L, x, R, t) - fc).max())
    return worst


def periodic_random_fc(perms, s2p, p2s, rng, symmetric=False):
    """Random array periodic over the supercell: fc[i,j] depends on (sublattice of i, j translated back).

    perms: pure-translation permutations (N, n_s) of the supercell as phonopy stores them is NOT used here;
    the harness derives translations itself (see translations_from_positions)."""
    raise NotImplementedError


def translations_from_positions(Ls, xs, Lp):
    """Pure translations of the primitive lattice acting on the supercell atoms, derived by the harness.

    Returns (perm array (N, n_s), sublattice index per atom (n_s,), list of translation vectors in supercell frac).
    perm[t][k] = index of the atom at x_k + t."""
    xs = np.array(xs, float)
    ns = len(xs)
    M = np.linalg.inv(np.array(Lp) @ np.linalg.inv(np.array(Ls)))  # supercell basis in primitive lattice units (rows)
    Mi = np.rint(M).astype(int)
    assert np.abs(M - Mi).max() < 1e-6
    N = int(round(abs(np.linalg.det(M))))
    # enumerate primitive lattice points inside the supercell: t = n @ inv(Mi) mod 1
    inv = np.linalg.inv(Mi)
    rng_ = range(-abs(Mi).sum(), abs(Mi).sum() + 1)
    seen = {}
    for nvec in itertools.product(rng_, repeat=3):
        t = np.array(nvec) @ inv
        t = t - np.floor(t + 1e-9)
        key = tuple(np.round(t, 6) % 1.0)
        if key not in seen:
            seen[key] = t
            if len(seen) == N:
                break
    assert len(seen) == N, (len(seen), N)
    tvecs = list(seen.values())
    perms = []
    for t in tvecs:
        y = xs + t
        d = y[:, None, :] - xs[None, :, :]
        d -= np.rint(d)
        dist = np.linalg.norm(d @ np.array(Ls), axis=2)
        p = dist.argmin(axis=1)
        assert (dist[np.arange(ns), p] < 1e-4).all() and len(set(p)) == ns
        perms.append(p)
    perms = np.array(perms)
    sub = np.full(ns, -1)
    c = 0
    for k in range(ns):
        if sub[k] < 0:
            sub[perms[:, k]] = c
            c += 1
    return perms, sub, tvecs


def random_periodic_fc(Ls, xs, Lp, rng, permutation_symmetric=False, asr=False):
    """Random supercell force constants invariant under all primitive translations (nothing else)."""
    perms, sub, _ = translations_from_positions(Ls, xs, Lp)
    ns = len(xs)
    fc = rng.standard_normal((ns, ns, 3, 3))
    out = np.zeros_like(fc)
    for p in perms:
        tmp = np.zeros_like(fc)
        tmp[np.ix_(p, p)] = fc
        out += tmp
    out /= len(perms)
    if permutation_symmetric:
        out = (out + out.transpose(1, 0, 3, 2)) / 2
    if asr:
        r = out.sum(axis=1, keepdims=True) / ns
        c = out.sum(axis=0, keepdims=True) / ns
        s = out.sum(axis=(0, 1), keepdims=True) / ns ** 2
        out = out - r - c + s
    return out
