"""Crystal zoo: parametrised prototypes with exact rational Wyckoff coordinates.

make(name, **transform) -> dict(cell, positions, symbols, magmoms, pmat, system)
to_atoms(d) -> PhonopyAtoms
"""

from __future__ import annotations

from fractions import Fraction as Fr

import numpy as np


def _lat(a, b, c, al=90.0, be=90.0, ga=90.0):
    al, be, ga = np.radians([al, be, ga])
    va = np.array([a, 0, 0.0])
    vb = np.array([b * np.cos(ga), b * np.sin(ga), 0.0])
    cx = c * np.cos(be)
    cy = c * (np.cos(al) - np.cos(be) * np.cos(ga)) / np.sin(ga)
    cz = np.sqrt(max(c * c - cx * cx - cy * cy, 0.0))
    L = np.array([va, vb, [cx, cy, cz]])
    L[np.abs(L) < 1e-15] = 0.0
    return L


def _centre(pos, sym, vecs):
    P, S = [], []
    for p, s in zip(pos, sym):
        for v in vecs:
            P.append([(Fr(x) + Fr(y)) % 1 for x, y in zip(p, v)])
            S.append(s)
    return P, S


H = Fr(1, 2)
Q = Fr(1, 4)
T = Fr(1, 3)
F_VECS = [(0, 0, 0), (0, H, H), (H, 0, H), (H, H, 0)]
I_VECS = [(0, 0, 0), (H, H, H)]
C_VECS = [(0, 0, 0), (H, H, 0)]
A_VECS = [(0, 0, 0), (0, H, H)]
R_VECS = [(0, 0, 0), (Fr(2, 3), T, T), (T, Fr(2, 3), Fr(2, 3))]


def _proto(name):
    """Return (lattice rows, positions (Fractions), symbols, pmat hint, crystal system, magmoms)."""
    mag = None
    if name == "sc":
        return _lat(3.0, 3.0, 3.0), [(0, 0, 0)], ["Cu"], "P", "cubic", mag
    if name == "bcc":
        p, s = _centre([(0, 0, 0)], ["Cr"], I_VECS)
        return _lat(2.88, 2.88, 2.88), p, s, "I", "cubic", mag
    if name == "fcc":
        p, s = _centre([(0, 0, 0)], ["Al"], F_VECS)
        return _lat(4.05, 4.05, 4.05), p, s, "F", "cubic", mag
    if name == "diamond":
        p, s = _centre([(0, 0, 0), (Q, Q, Q)], ["Si", "Si"], F_VECS)
        return _lat(5.43, 5.43, 5.43), p, s, "F", "cubic", mag
    if name == "rocksalt":
        p, s = _centre([(0, 0, 0), (H, H, H)], ["Na", "Cl"], F_VECS)
        return _lat(5.64, 5.64, 5.64), p, s, "F", "cubic", mag
    if name == "zincblende":
        p, s = _centre([(0, 0, 0), (Q, Q, Q)], ["Zn", "S"], F_VECS)
        return _lat(5.41, 5.41, 5.41), p, s, "F", "cubic", mag
    if name == "cscl":
        return _lat(4.12, 4.12, 4.12), [(0, 0, 0), (H, H, H)], ["Cs", "Cl"], "P", "cubic", mag
    if name == "fluorite":
        p, s = _centre([(0, 0, 0), (Q, Q, Q), (Fr(3, 4), Fr(3, 4), Fr(3, 4))], ["Ca", "F", "F"], F_VECS)
        return _lat(5.46, 5.46, 5.46), p, s, "F", "cubic", mag
    if name == "perovskite":
        return (_lat(3.9, 3.9, 3.9), [(0, 0, 0), (H, H, H), (H, H, 0), (H, 0, H), (0, H, H)],
                ["Sr", "Ti", "O", "O", "O"], "P", "cubic", mag)
    if name == "wurtzite":
        u = Fr(3, 8)
        return (_lat(3.25, 3.25, 5.2, 90, 90, 120), [(T, 2 * T, 0), (2 * T, T, H), (T, 2 * T, u), (2 * T, T, u + H)],
                ["Zn", "Zn", "O", "O"], "P", "hexagonal", mag)
    if name == "hcp":
        return _lat(3.2, 3.2, 5.2, 90, 90, 120), [(T, 2 * T, Q), (2 * T, T, 3 * Q)], ["Mg", "Mg"], "P", "hexagonal", mag
    if name == "graphite":
        return (_lat(2.46, 2.46, 6.7, 90, 90, 120), [(0, 0, Q), (0, 0, 3 * Q), (T, 2 * T, Q), (2 * T, T, 3 * Q)],
                ["C"] * 4, "P", "hexagonal", mag)
    if name == "rutile":
        u = Fr(3, 10)
        return (_lat(4.6, 4.6, 2.95), [(0, 0, 0), (H, H, H), (u, u, 0), (1 - u, 1 - u, 0), (H + u, H - u, H), (H - u, H + u, H)],
                ["Ti", "Ti", "O", "O", "O", "O"], "P", "tetragonal", mag)
    if name == "betasn":
        p, s = _centre([(0, 0, 0), (0, H, Q)], ["Sn", "Sn"], I_VECS)
        return _lat(5.83, 5.83, 3.18), p, s, "I", "tetragonal", mag
    if name == "anatase":
        u = Fr(1, 5)
        p, s = _centre([(0, 0, 0), (0, H, Q), (0, 0, u), (0, 0, -u), (0, H, Q + u), (0, H, Q - u)],
                       ["Ti", "Ti", "O", "O", "O", "O"], I_VECS)
        return _lat(3.78, 3.78, 9.5), p, s, "I", "tetragonal", mag
    if name == "rhomb_bi":
        u = Fr(47, 200)
        return _lat(4.7, 4.7, 4.7, 57, 57, 57), [(u, u, u), (-u, -u, -u)], ["Bi", "Bi"], "P", "rhombohedral", mag
    if name == "rhomb_hex":
        # R-3m in hexagonal axes, atoms at 6c (0,0,z)
        z = Fr(47, 200)
        p, s = _centre([(0, 0, z), (0, 0, -z)], ["Bi", "Bi"], R_VECS)
        return _lat(4.5, 4.5, 11.8, 90, 90, 120), p, s, "R", "rhombohedral", mag
    if name == "corundum_like":
        z1, x = Fr(7, 20), Fr(3, 10)
        base = [(0, 0, z1), (0, 0, -z1), (0, 0, H - z1), (0, 0, H + z1),
                (x, 0, Q), (0, x, Q), (-x, -x, Q), (-x, 0, 3 * Q), (0, -x, 3 * Q), (x, x, 3 * Q)]
        p, s = _centre(base, ["Al"] * 4 + ["O"] * 6, R_VECS)
        return _lat(4.76, 4.76, 13.0, 90, 90, 120), p, s, "R", "rhombohedral", mag
    if name == "ortho_p":
        return _lat(3.1, 4.3, 5.2), [(0, 0, 0), (H, H, H)], ["Mg", "O"], "P", "orthorhombic", mag
    if name == "ortho_p4":
        y = Fr(1, 5)
        return (_lat(3.3, 4.6, 5.4), [(0, y, Q), (0, -y, 3 * Q), (H, H + y, Q), (H, H - y, 3 * Q)],
                ["Ga", "Ga", "As", "As"], "P", "orthorhombic", mag)
    if name == "ortho_c":
        p, s = _centre([(0, 0, 0), (0, 0, H)], ["Ti", "O"], C_VECS)
        return _lat(3.4, 4.9, 4.1), p, s, "C", "orthorhombic", mag
    if name == "ortho_a":
        p, s = _centre([(0, 0, 0), (H, 0, Fr(3, 10))], ["Ge", "S"], A_VECS)
        return _lat(3.6, 4.4, 5.1), p, s, "A", "orthorhombic", mag
    if name == "ortho_i":
        p, s = _centre([(0, 0, 0), (0, H, Fr(1, 5))], ["Fe", "S"], I_VECS)
        return _lat(3.5, 4.2, 5.6), p, s, "I", "orthorhombic", mag
    if name == "ortho_f":
        p, s = _centre([(0, 0, 0), (Q, Q, Q)], ["Ga", "N"], F_VECS)
        return _lat(4.4, 5.0, 5.8), p, s, "F", "orthorhombic", mag
    if name == "mono_p":
        x, y, z = Fr(1, 5), Fr(3, 10), Fr(1, 10)
        return (_lat(3.9, 4.4, 5.1, 90, 101, 90), [(0, 0, 0), (x, y, z), (-x, y, -z)], ["Zr", "O", "O"], "P", "monoclinic", mag)
    if name == "mono_c":
        x, y, z = Fr(1, 5), Fr(3, 10), Fr(1, 10)
        p, s = _centre([(0, 0, 0), (x, y, z), (-x, y, -z)], ["Hf", "O", "O"], C_VECS)
        return _lat(5.9, 4.6, 5.3, 90, 104, 90), p, s, "C", "monoclinic", mag
    if name == "tric1":
        return _lat(3.2, 3.9, 4.4, 81, 97, 105), [(Fr(1, 10), Fr(1, 5), Fr(3, 10))], ["Cu"], "P", "triclinic", mag
    if name == "tric2":
        return (_lat(3.6, 4.1, 4.9, 83, 99, 107), [(Fr(1, 10), Fr(1, 5), Fr(3, 10)), (Fr(3, 5), Fr(7, 10), Fr(4, 5))],
                ["Na", "Cl"], "P", "triclinic", mag)
    if name == "tric3":
        return (_lat(4.1, 4.6, 5.2, 78, 95, 111),
                [(Fr(1, 10), Fr(1, 5), Fr(3, 10)), (Fr(3, 5), Fr(7, 10), Fr(4, 5)), (Fr(2, 5), Fr(1, 10), Fr(7, 10))],
                ["Li", "Nb", "O"], "P", "triclinic", mag)
    if name == "tric_ilv":
        # P1 cell whose species are interleaved in the atom list (O, Li, O, Nb): the hostile case for writers that regroup atoms by species
        return (_lat(4.1, 4.6, 5.2, 78, 95, 111),
                [(Fr(1, 10), Fr(1, 5), Fr(3, 10)), (Fr(3, 5), Fr(7, 10), Fr(4, 5)), (Fr(2, 5), Fr(1, 10), Fr(7, 10)), (Fr(1, 4), Fr(17, 20), Fr(3, 20))],
                ["O", "Li", "O", "Nb"], "P", "triclinic", mag)
    if name == "tric_pbar1":
        x = (Fr(1, 5), Fr(3, 10), Fr(1, 10))
        return (_lat(3.8, 4.3, 5.0, 80, 98, 108), [(0, 0, 0), x, tuple(-v for v in x)], ["Ca", "F", "F"], "P", "triclinic", mag)
    if name == "afm_cr":
        p, s = [(0, 0, 0), (H, H, H)], ["Cr", "Cr"]
        return _lat(2.88, 2.88, 2.88), p, s, "P", "cubic", [1.0, -1.0]
    if name == "afm_cr_nc":
        p, s = [(0, 0, 0), (H, H, H)], ["Cr", "Cr"]
        return _lat(2.88, 2.88, 2.88), p, s, "P", "cubic", [[0, 0, 1.0], [0, 0, -1.0]]
    if name == "fm_fe_tet":
        p, s = [(0, 0, 0), (H, H, H)], ["Fe", "Fe"]
        return _lat(2.8, 2.8, 3.1), p, s, "I", "tetragonal", [2.0, 2.0]
    if name == "afm_nio":
        # rocksalt with layered collinear moments along c (type-I AFM): tetragonal magnetic symmetry
        p, s = _centre([(0, 0, 0), (H, H, H)], ["Ni", "O"], F_VECS)
        m = []
        for pp, ss in zip(p, s):
            m.append(0.0 if ss == "O" else (1.0 if pp[2] == 0 else -1.0))
        return _lat(4.17, 4.17, 4.17), p, s, "P", "tetragonal", m
    raise KeyError(name)


ZOO = ["sc", "bcc", "fcc", "diamond", "rocksalt", "zincblende", "cscl", "fluorite", "perovskite", "wurtzite", "hcp",
       "graphite", "rutile", "betasn", "anatase", "rhomb_bi", "rhomb_hex", "corundum_like", "ortho_p", "ortho_p4",
       "ortho_c", "ortho_a", "ortho_i", "ortho_f", "mono_p", "mono_c", "tric1", "tric2", "tric3", "tric_pbar1"]
MAGNETIC = ["afm_cr", "afm_cr_nc", "fm_fe_tet", "afm_nio"]
SMALL = ["sc", "bcc", "fcc", "diamond", "rocksalt", "cscl", "perovskite", "wurtzite", "hcp", "rutile", "rhomb_bi",
         "ortho_p", "ortho_c", "mono_p", "tric2", "tric3", "tric_pbar1", "betasn", "ortho_a", "zincblende"]
POLAR = ["rocksalt", "zincblende", "cscl", "perovskite", "wurtzite", "rutile", "tric2", "ortho_p", "fluorite", "tric3"]


def natoms(name):
    return len(_proto(name)[1])


def make(name, order="asis", order_seed=0, int_shift=False, edge=False, rot_seed=None, ext_symbols=False, scale=1.0, decimals=None, isotope_seed=None):
    """Build the prototype and apply harmless re-descriptions of the same crystal."""
    L, pos, sym, pmat, system, mag = _proto(name)
    L = np.array(L, float) * scale
    pos = np.array([[float(Fr(x) % 1) for x in p] for p in pos], float)
    sym = list(sym)
    n = len(sym)
    idx = np.arange(n)
    if order == "interleave":
        # round-robin over species so that species are maximally interleaved
        groups = {}
        for i, s in enumerate(sym):
            groups.setdefault(s, []).append(i)
        lists = list(groups.values())
        idx = []
        k = 0
        while any(lists):
            for g in lists:
                if g:
                    idx.append(g.pop(0))
            k += 1
        idx = np.array(idx)
    elif order == "random":
        idx = np.random.default_rng([order_seed, 77]).permutation(n)
    elif order == "grouped":
        idx = np.array(sorted(range(n), key=lambda i: (sym.index(sym[i]), i)))
    pos, sym = pos[idx], [sym[i] for i in idx]
    if mag is not None:
        mag = [mag[i] for i in idx]
    if int_shift:
        rng = np.random.default_rng([order_seed, 78])
        pos = pos + rng.integers(-2, 3, size=pos.shape)
    if edge:
        # atoms sitting on a cell face are described from just below 1 instead of 0
        pos = np.where(np.abs(pos - np.rint(pos)) < 1e-12, pos + (1 - 1e-9), pos)
    if rot_seed is not None:
        rng = np.random.default_rng([rot_seed, 79])
        A = rng.standard_normal((3, 3))
        Qm, _ = np.linalg.qr(A)
        if np.linalg.det(Qm) < 0:
            Qm[:, 0] *= -1
        L = L @ Qm.T
    if ext_symbols:
        first = sym[0]
        sym = [s + "1" if s == first else s for s in sym]
    if decimals is not None:
        # the structure as read from a file written with a few decimals (lattice and positions rounded): symmetric only within ~10^-decimals
        L = np.round(L, int(decimals))
        pos = np.round(pos, int(decimals))
    out = {"name": name, "cell": L.tolist(), "positions": pos.tolist(), "symbols": sym, "magmoms": mag,
           "pmat": pmat, "system": system}
    if isotope_seed is not None:
        # explicit masses that differ between atoms carrying the SAME symbol (isotope substitution on single sites): per-atom attributes
        # must travel with the atom, not with its symbol
        from phonopy.structure.atoms import atom_data, symbol_map

        rng = np.random.default_rng([isotope_seed, 80])
        out["masses"] = [float(atom_data[symbol_map["".join(ch for ch in s_ if ch.isalpha())]][3] * (1 + 0.01 * rng.integers(0, 9))) for s_ in sym]
    return out


def to_atoms(d, masses=None):
    from phonopy.structure.atoms import PhonopyAtoms

    kw = {}
    if d.get("magmoms") is not None:
        kw["magnetic_moments"] = d["magmoms"]
    if masses is None and d.get("masses") is not None:
        masses = d["masses"]
    if masses is None and any(not s.isalpha() for s in d["symbols"]):
        from phonopy.structure.atoms import atom_data, symbol_map

        masses = [atom_data[symbol_map["".join(ch for ch in s if ch.isalpha())]][3] * (1.05 if not s.isalpha() else 1.0) for s in d["symbols"]]
    if masses is not None:
        kw["masses"] = masses
    return PhonopyAtoms(cell=d["cell"], scaled_positions=d["positions"], symbols=d["symbols"], **kw)


def min_distance(d):
    L = np.array(d["cell"])
    x = np.array(d["positions"])
    n = len(x)
    best = 1e9
    import itertools

    T = np.array(list(itertools.product((-1, 0, 1), repeat=3)))
    for i in range(n):
        dd = x - x[i]
        dd -= np.rint(dd)
        v = (dd[:, None, :] + T[None, :, :]) @ L
        r = np.linalg.norm(v, axis=2)
        r[r < 1e-8] = 1e9
        best = min(best, r.min())
    return best
