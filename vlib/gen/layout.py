"""The same numbers in different memory layouts / container types ("for all inputs" includes how the caller happens to hold them)."""
import numpy as np

KINDS = ["c", "fortran", "strided", "view", "list", "readonly", "column"]
ARRAY_KINDS = ["c", "fortran", "strided", "view", "column"]  # numpy arrays a caller may legitimately hold (writable)


def relayout(a, rng, kind=None):
    """Return (object holding the values of a, kind). Values are bit-identical to np.array(a, float)."""
    a = np.array(a, dtype="double")
    kind = kind or KINDS[int(rng.integers(len(KINDS)))]
    if kind == "c":
        return np.array(a, order="C"), kind
    if kind == "fortran":
        return (np.asfortranarray(a) if a.ndim > 1 else np.array(a)), kind
    if kind == "strided":
        big = np.full(tuple(2 * s for s in a.shape), 77.7)
        v = big[tuple(slice(None, None, 2) for _ in a.shape)]
        v[...] = a
        return v, kind
    if kind == "view":
        base = np.concatenate([[55.5], a.ravel(), [66.6]])
        return base[1:-1].reshape(a.shape), kind  # not owning its data, offset start
    if kind == "list":
        return a.tolist(), kind
    if kind == "readonly":
        b = np.array(a)
        b.flags.writeable = False
        return b, kind
    if kind == "column":
        if a.ndim == 1:
            m = np.full((len(a), 3), 33.3)
            m[:, 1] = a
            return m[:, 1], kind  # a column of a matrix of column vectors
        return np.ascontiguousarray(a.T).T, kind  # transposed view of the transposed copy
    raise ValueError(kind)
