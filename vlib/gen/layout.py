"""The same numbers in different memory layouts / container types ("for all inputs" includes how the caller happens to hold them)."""
import numpy as np

KINDS = ["c", "fortran", "strided", "view", "list", "readonly", "column"]
ARRAY_KINDS = ["c", "fortran", "strided", "view", "column"]  # numpy arrays a caller may legitimately hold (writable)


def relayout(a, rng, kind=None):
    """Return (object holding the values of a, kind). Values are bit-identical to np.array(a, float)."""
    a = np.array(a, dtype="double")
    if kind is None and a.size and np.array_equal(a, np.rint(a)) and np.abs(a).max() < 2 ** 31 and rng.integers(2):
        # whole numbers as a caller writes them (q = [0, 0, 0], [1, 0, 0], a mesh, a direction [1, 1, 0]): integer-typed containers - a buffer
        # handed to a compiled routine without conversion is then read as garbage (round 6, integer frequency windows)
        k = ["int_list", "int64_array", "intc_array"][int(rng.integers(3))]
        if k == "int_list":
            return np.rint(a).astype(int).tolist(), k
        return np.rint(a).astype("int64" if k == "int64_array" else "intc"), k
    kind = kind or KINDS[int(rng.integers(len(KINDS)))]
    if kind == "c":
        return np.array(a, order="C"), kind
    if kind == "fortran":
        return (np.asfortranarray(a) if a.ndim > 1 else np.array(a)), kind
    if kind == "strided":
        big = np.full(tuple(2 * s for s in a.shape), 77.7)
        v = big[tuple(slice(None, None, 2) for _ in a.shape)]
        v[...] = a
        return v, kind
    if kind == "view":
        base = np.concatenate([[55.5], a.ravel(), [66.6]])
        return base[1:-1].reshape(a.shape), kind  # not owning its data, offset start
    if kind == "list":
        return a.tolist(), kind
    if kind == "readonly":
        b = np.array(a)
        b.flags.writeable = False
        return b, kind
    if kind == "column":
        if a.ndim == 1:
            m = np.full((len(a), 3), 33.3)
            m[:, 1] = a
            return m[:, 1], kind  # a column of a matrix of column vectors
        return np.ascontiguousarray(a.T).T, kind  # transposed view of the transposed copy
    raise ValueError(kind)
