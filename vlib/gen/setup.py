"""Shared case construction: supercell matrices, Phonopy objects from case dicts, harmonic forces."""

from __future__ import annotations

import itertools

import numpy as np

from . import crystals, models

DIAG = [[1, 1, 1], [2, 1, 1], [1, 2, 1], [1, 1, 2], [2, 2, 1], [2, 2, 2], [3, 1, 1], [1, 1, 3], [3, 2, 1], [3, 3, 1], [2, 3, 2],
        [3, 3, 3], [4, 1, 1], [4, 2, 2], [1, 4, 1]]
NONDIAG = [
    [[0, 1, 1], [1, 0, 1], [1, 1, 0]],
    [[-1, 1, 1], [1, -1, 1], [1, 1, -1]],
    [[1, 1, 0], [-1, 1, 0], [0, 0, 1]],
    [[2, 1, 0], [0, 2, 0], [0, 0, 1]],
    [[1, 0, 0], [1, 2, 0], [0, 1, 2]],
    [[2, 0, 1], [0, 1, 0], [-1, 0, 2]],
    [[1, -1, 0], [1, 1, 1], [0, -1, 2]],
    [[2, 1, 1], [0, 2, 1], [0, 0, 1]],
    [[1, 2, 0], [0, 1, 3], [1, 0, 1]],
    [[2, -1, 0], [1, 1, 0], [0, 0, 2]],
    [[3, 1, 0], [0, 1, 0], [0, 1, 2]],
    [[1, 1, 1], [-1, 2, 0], [0, -1, 2]],
]


def det3(m):
    m = np.array(m)
    return int(round(np.linalg.det(m)))


def smat_list(max_mult, include_nondiag=True, rng=None, n_random=0):
    out = [np.diag(d).tolist() for d in DIAG if np.prod(d) <= max_mult]
    if include_nondiag:
        out += [m for m in NONDIAG if 0 < det3(m) <= max_mult]
    if rng is not None:
        tries = 0
        while n_random > 0 and tries < 10000:
            tries += 1
            m = rng.integers(-2, 4, size=(3, 3))
            d = det3(m)
            if 0 < d <= max_mult and (m != np.diag(np.diagonal(m))).any():
                out.append(m.tolist())
                n_random -= 1
    return out


def build_phonopy(c, **over):
    """c: {'crystal': {...kwargs of crystals.make incl. name}, 'smat':..., 'pmat':..., options}."""
    from phonopy import Phonopy

    cd = crystals.make(**c["crystal"])
    atoms = crystals.to_atoms(cd, masses=c.get("masses"))
    kw = dict(supercell_matrix=c.get("smat"), primitive_matrix=c.get("pmat"), log_level=0)
    for k in ("is_symmetry", "store_dense_svecs", "use_SNF_supercell", "symprec", "factor", "calculator",
              "group_velocity_delta_q"):
        if k in c:
            kw[k] = c[k]
    kw.update(over)
    ph = Phonopy(atoms, **kw)
    return ph, cd


def resolve_pmat(cd, pm):
    """'centring' -> the centring letter of the prototype."""
    if pm == "centring":
        return cd["pmat"]
    return pm


def numbers_of(symbols):
    """Species numbers for spglib: distinct integer per distinct symbol string (extended symbols distinct)."""
    uniq = {}
    return [uniq.setdefault(s, len(uniq) + 1) for s in symbols]


def supercell_ops(ph, symprec=1e-5):
    sc = ph.supercell
    return models.symmetry_ops(sc.cell, sc.scaled_positions, numbers_of(sc.symbols), magmoms=sc.magnetic_moments, symprec=symprec)


def harmonic_forces_type1(ph, fc):
    """Forces of the harmonic model for the displacements phonopy generated (type-1 dataset)."""
    n = len(ph.supercell)
    forces = []
    for d in ph.dataset["first_atoms"]:
        u = np.zeros((n, 3))
        u[d["number"]] = d["displacement"]
        forces.append(-np.einsum("ijab,jb->ia", fc, u))
    return np.array(forces)


def minimal_sc_length(cell):
    """Length of the shortest non-zero lattice vector (brute force over a safe box on the Niggli-reduced basis)."""
    import spglib

    red = spglib.niggli_reduce(np.array(cell, float), eps=1e-5)
    T = np.array(list(itertools.product(range(-2, 3), repeat=3)))
    T = T[(T != 0).any(axis=1)]
    return float(np.linalg.norm(T @ red, axis=1).min())
