"""Launcher: ./check <id> --tier quick|thorough [--seed N] [--replay FILE] [--only SUBSTR]"""

from __future__ import annotations

import argparse
import os
import subprocess
import sys


def main():
    ap = argparse.ArgumentParser()
    ap.add_argument("what")
    ap.add_argument("--tier", default=os.environ.get("VERIF_TIER", "quick"))
    ap.add_argument("--seed", type=int, default=int(os.environ.get("VERIF_SEED", "0") or 0))
    ap.add_argument("--replay", default=None)
    ap.add_argument("--only", default=None)
    a = ap.parse_args()
    from . import build, runner

    if a.what == "bootstrap":
        runner.ensure_deps()
        print(build.ensure(list(build.VARIANTS)))
        return 0
    if a.what == "selftest-shim":
        runner.ensure_deps()
        build.ensure(["omp"])
        env = runner.worker_env("omp")
        r = subprocess.run([sys.executable, "-m", "pytest", "-q", "-p", "no:cacheprovider", "-n", "8", "--timeout=900",
                            "--deselect", "test/interface/test_symfc.py", "--deselect", "test/sscha", "--deselect", "test/interface/test_pypolymlp.py"],
                           cwd=build.REPO, env=env)
        return r.returncode
    if a.tier not in ("quick", "thorough"):
        a.tier = "quick"
    return runner.run_check(a.what, tier=a.tier, seed=a.seed, replay=a.replay, only=a.only)


if __name__ == "__main__":
    sys.exit(main())
