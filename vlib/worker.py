"""Worker: runs a list of cases of one check in this process, one JSON line per case."""

from __future__ import annotations

import faulthandler
import json
import os
import signal
import sys
import traceback
import warnings


class CaseTimeout(Exception):
    pass


def _alarm(signum, frame):
    raise CaseTimeout()


def main():
    cid, cf, of, mf, case_timeout = sys.argv[1:6]
    case_timeout = int(case_timeout)
    faulthandler.enable()
    warnings.filterwarnings("ignore")
    import importlib

    mod = importlib.import_module("checks." + cid.lower())
    from vlib.monitors import contracts

    if getattr(mod, "CONTRACTS", True):
        contracts.install()
    cases = json.load(open(cf))
    signal.signal(signal.SIGALRM, _alarm)
    with open(of, "a") as out:
        for case in cases:
            with open(mf, "w") as m:
                json.dump({"_i": case.get("_i"), "case": case}, m)
            res = {"_i": case.get("_i"), "case": case}
            signal.alarm(case_timeout)
            try:
                r = mod.run_case(case)
                res.update(r or {})
            except CaseTimeout:
                res["timeout"] = True
            except contracts.ContractBroken as e:
                res.setdefault("viol", []).append(e.as_violation())
            except Exception:
                res["error"] = traceback.format_exc()
            finally:
                signal.alarm(0)
            # contract violations recorded (not raised) during the case
            pend = contracts.drain_violations()
            if pend:
                res.setdefault("viol", []).extend(pend)
            out.write(json.dumps(res, default=_default) + "\n")
            out.flush()
        proc_obs = {"contracts": contracts.counters()}
        if hasattr(mod, "process_obs"):
            try:
                proc_obs.update(mod.process_obs() or {})
            except Exception:
                proc_obs["process_obs_error"] = 1
        out.write(json.dumps({"_proc_obs": proc_obs, "_i": 10**9}, default=_default) + "\n")
        out.flush()
    sys.stdout.flush()
    sys.stderr.flush()
    os._exit(0)  # skip interpreter teardown (sanitizer runtimes + numpy at exit)


def _default(o):
    try:
        import numpy as np

        if isinstance(o, np.ndarray):
            return o.tolist()
        if isinstance(o, (np.integer,)):
            return int(o)
        if isinstance(o, (np.floating,)):
            return float(o)
        if isinstance(o, (np.bool_,)):
            return bool(o)
        if isinstance(o, complex):
            return [o.real, o.imag]
    except Exception:
        pass
    return str(o)


if __name__ == "__main__":
    main()
