# Loaded automatically when /verif/vlib/site is on PYTHONPATH.
# Guard: does nothing unless PHONOPY_VERIF_EXT (path to a built _phonopy .so) is set.
import importlib.abc
import importlib.util
import os
import sys

_p = os.environ.get("PHONOPY_VERIF_EXT")
if _p:

    class _PhonopyExtFinder(importlib.abc.MetaPathFinder):
        def find_spec(self, name, path=None, target=None):
            if name == "phonopy._phonopy":
                return importlib.util.spec_from_file_location(name, os.environ.get("PHONOPY_VERIF_EXT", _p))
            return None

    sys.meta_path.insert(0, _PhonopyExtFinder())

if os.environ.get("PHONOPY_VERIF_MONITORS"):
    try:
        import vmon_boot  # noqa: F401  (installs contracts lazily on phonopy import)
    except Exception as _e:  # never break the interpreter
        sys.stderr.write("verif: monitor boot failed: %r\n" % (_e,))
