"""Imported by sitecustomize when PHONOPY_VERIF_MONITORS is set: installs the always-on contracts inside CLI subprocesses
and dumps their counters / recorded violations to PHONOPY_VERIF_LOG (one JSON line per process) at exit."""
import atexit
import json
import os
import sys

_V = os.path.dirname(os.path.dirname(os.path.dirname(os.path.abspath(__file__))))
if _V not in sys.path:
    sys.path.append(_V)


def _install():
    try:
        from vlib.monitors import contracts

        contracts.install()

        def _dump():
            p = os.environ.get("PHONOPY_VERIF_LOG")
            if not p:
                return
            try:
                with open(p, "a") as f:
                    f.write(json.dumps({"pid": os.getpid(), "argv": sys.argv[:6], "contracts": contracts.counters(), "viol": contracts.drain_violations()}, default=str) + "\n")
            except Exception:
                pass

        atexit.register(_dump)
    except Exception as e:  # never break the program under observation
        sys.stderr.write("verif: contracts not installed: %r\n" % (e,))


_install()
