"""Shard cases of one check over worker subprocesses, collect observations, decide a verdict.

Exit codes: 0 held (known findings are printed as KNOWN-FINDING lines), 1 violation
(`VIOLATION property=<id> replay=<path>`), 2 inconclusive (`INCONCLUSIVE property=<id> reason=...`).
"""

from __future__ import annotations

import glob
import hashlib
import importlib
import json
import os
import shutil
import subprocess
import sys
import time
from concurrent.futures import ThreadPoolExecutor

from . import build

VERIF = build.VERIF
REPO = build.REPO
EVID = os.path.join(VERIF, "evidence")
if os.path.realpath(REPO) != "/repo":
    # mutant self-tests point the checks at a scratch copy: never overwrite the real evidence
    EVID = os.path.join(VERIF, ".cache", "evidence-scratch")
NCPU = int(os.environ.get("VERIF_JOBS", "16"))


def load_check(cid):
    return importlib.import_module("checks." + cid.lower())


def ensure_deps():
    deps = os.path.join(VERIF, ".deps")
    if os.path.exists(os.path.join(deps, ".ok")):
        return
    pkgs = ["scipy", "icontract", "asttokens", "typing_extensions", "jsonschema", "attrs",
            "referencing", "rpds-py", "jsonschema-specifications", "six"]
    tmp = deps + ".tmp%d" % os.getpid()
    shutil.rmtree(tmp, ignore_errors=True)
    r = subprocess.run([sys.executable, "-m", "pip", "install", "-q", "--no-index", "--no-deps",
                        "--find-links", "/opt/veriftools/wheels", "--target", tmp] + pkgs,
                       capture_output=True, text=True, env=dict(os.environ, PIP_NO_INDEX="1"))
    if r.returncode != 0:
        # retry without the optional ones
        r = subprocess.run([sys.executable, "-m", "pip", "install", "-q", "--no-index", "--no-deps",
                            "--find-links", "/opt/veriftools/wheels", "--target", tmp] + pkgs[:-1],
                           capture_output=True, text=True, env=dict(os.environ, PIP_NO_INDEX="1"))
    if r.returncode != 0:
        raise RuntimeError("deps install failed:\n" + r.stdout + r.stderr)
    open(os.path.join(tmp, ".ok"), "w").write("ok\n")
    if os.path.exists(deps):
        shutil.rmtree(tmp, ignore_errors=True)
    else:
        try:
            os.rename(tmp, deps)
        except OSError:
            shutil.rmtree(tmp, ignore_errors=True)


def worker_env(variant="omp", san=None, extra=None, threads=None):
    so = build.so_path(variant)
    env = dict(os.environ)
    env["PYTHONPATH"] = os.pathsep.join([os.path.join(VERIF, "vlib", "site"), os.path.join(VERIF, ".deps"), VERIF, REPO])
    env["PHONOPY_VERIF_EXT"] = so
    env["PHONOPY_VERIF"] = "1"
    env["PHONOPY_VERIF_VARIANT"] = variant
    env["PYTHONHASHSEED"] = "0"
    env["PYTHONFAULTHANDLER"] = "1"
    env["OPENBLAS_NUM_THREADS"] = "1"
    env["MKL_NUM_THREADS"] = "1"
    env["OMP_NUM_THREADS"] = str(threads or 2)
    env["MPLBACKEND"] = "Agg"
    env["VERIF_REPO"] = REPO
    env.pop("PYTHONSTARTUP", None)
    if variant == "asan":
        env["LD_PRELOAD"] = build.gcc_lib("libasan.so") + " " + build.gcc_lib("libubsan.so")
        env["ASAN_OPTIONS"] = "detect_leaks=0:halt_on_error=1:abort_on_error=1:allocator_may_return_null=1"
        env["UBSAN_OPTIONS"] = "print_stacktrace=1:halt_on_error=1"
        env["PYTHONMALLOC"] = "malloc"
    elif variant == "tsan":
        env["LD_PRELOAD"] = build.gcc_lib("libtsan.so")
        env["PYTHONMALLOC"] = "malloc"
    if extra:
        env.update(extra)
    return env


def _stable_hash(obj):
    return hashlib.sha256(json.dumps(obj, sort_keys=True, default=str).encode()).hexdigest()[:12]


class Shard:
    def __init__(self, idx, cases, variant, extra_env, threads):
        self.idx = idx
        self.cases = cases
        self.variant = variant
        self.extra_env = extra_env
        self.threads = threads


def _run_shard(cid, shard, rundir, case_timeout, results, crashes, timeouts):
    """Run one shard; restart after a crashing case. Appends to results (list)."""
    remaining = list(shard.cases)
    attempt = 0
    while remaining:
        attempt += 1
        base = os.path.join(rundir, "s%03d_%d" % (shard.idx, attempt))
        cf, of, mf = base + ".cases.json", base + ".out.jsonl", base + ".mark"
        with open(cf, "w") as f:
            json.dump(remaining, f)
        env = worker_env(shard.variant, extra=dict(shard.extra_env or {}, VERIF_SAN_LOG=base + ".san"), threads=shard.threads)
        if shard.variant == "tsan":
            env["TSAN_OPTIONS"] = ("halt_on_error=0:report_signal_unsafe=0:ignore_noninstrumented_modules=1:second_deadlock_stack=1:"
                                   "history_size=4:log_path=" + base + ".san")
        budget = case_timeout * len(remaining) + 120
        t0 = time.time()
        prefix = [a.replace("{base}", base) for a in (shard.extra_env or {}).get("VERIF_CMD_PREFIX", "").split("\x1f") if a]
        try:
            p = subprocess.run(prefix + [sys.executable, "-m", "vlib.worker", cid, cf, of, mf, str(case_timeout)],
                               cwd=rundir, env=env, capture_output=True, text=True, timeout=budget)
            rc, err = p.returncode, (p.stderr or "")[-6000:]
        except subprocess.TimeoutExpired as e:
            rc, err = -999, "shard watchdog expired after %.0fs" % (time.time() - t0)
        done = []
        if os.path.exists(of):
            with open(of) as f:
                for line in f:
                    try:
                        done.append(json.loads(line))
                    except Exception:
                        pass
        post = getattr(load_check(cid), "post_shard", None)
        if post is not None:
            try:
                extra = post(shard.variant, shard.extra_env or {}, base)
                if extra:
                    done.append({"_proc_obs": extra, "_i": 10 ** 9})
            except Exception as e:  # a parser bug must not hide verdicts
                done.append({"_proc_obs": {"post_shard_error": 1}, "_i": 10 ** 9})
        results.extend(done)
        ndone = sum(1 for d in done if "_proc_obs" not in d)
        if ndone >= len(remaining) and rc == 0:
            return
        # the worker died (or was killed) while working on case index ndone
        mark = None
        if os.path.exists(mf):
            try:
                mark = json.load(open(mf))
            except Exception:
                mark = None
        if ndone < len(remaining):
            bad = remaining[ndone]
            sanlog = ""
            for fn in sorted(glob.glob(base + ".san*"))[:4]:
                try:
                    sanlog += open(fn, errors="replace").read()[-4000:]
                except OSError:
                    pass
            rec = {"case": bad, "returncode": rc, "stderr_tail": (err + "\n" + sanlog)[-9000:], "mark": mark,
                   "variant": shard.variant, "extra_env": shard.extra_env}
            policy = getattr(load_check(cid), "crash_policy", None)
            retries = shard.__dict__.setdefault("retries", {})
            kcase = json.dumps(bad, sort_keys=True, default=str)
            if rc != -999 and policy is not None and policy(rec) == "retry" and retries.get(kcase, 0) < 2:
                # a death that the check attributes to the tool's runtime, not to the code under test: run the same case again (bounded)
                retries[kcase] = retries.get(kcase, 0) + 1
                shard.__dict__.setdefault("runtime_aborts", []).append({"rc": rc, "tail": rec["stderr_tail"][-600:]})
                remaining = remaining[ndone:]
                continue
            (timeouts if rc == -999 else crashes).append(rec)
            remaining = remaining[ndone + 1:]
        else:
            # all cases done but non-zero exit at interpreter shutdown
            crashes.append({"case": None, "returncode": rc, "stderr_tail": err, "mark": mark,
                            "variant": shard.variant, "extra_env": shard.extra_env})
            return


def load_known(prop):
    p = os.path.join(VERIF, "known_findings.json")
    if not os.path.exists(p):
        return []
    with open(p) as f:
        d = json.load(f)
    return [e for e in d.get("findings", []) if e.get("property") == prop]


def _match_value(spec, val):
    if isinstance(spec, dict):
        for op, ref in spec.items():
            if op == "gt" and not (val is not None and val > ref):
                return False
            if op == "lt" and not (val is not None and val < ref):
                return False
            if op == "in" and val not in ref:
                return False
            if op == "ne" and val == ref:
                return False
        return True
    return spec == val


def classify(viol, known):
    """Return the known-finding entry (status == 'known') whose predicate covers this violation."""
    for e in known:
        if e.get("status") != "known":
            continue
        m = e.get("match", {})
        if all(_match_value(v, viol.get(k)) for k, v in m.items()):
            return e
    return None


def merge_obs(total, obs):
    for k, v in (obs or {}).items():
        if isinstance(v, bool):
            total[k] = total.get(k, 0) + int(v)
        elif isinstance(v, (int, float)):
            total[k] = total.get(k, 0) + v
        elif isinstance(v, dict):
            total.setdefault(k, {})
            merge_obs(total[k], v)
        elif isinstance(v, list):
            s = total.setdefault(k, [])
            for x in v:
                if x not in s and len(s) < 400:
                    s.append(x)
        else:
            total.setdefault(k, v)


def validate_evidence(ev):
    try:
        sys.path.insert(0, os.path.join(VERIF, ".deps"))
        import jsonschema
        schema_path = "/root/.vp/EVIDENCE.schema.json"
        if not os.path.exists(schema_path):
            schema_path = os.path.join(VERIF, "vlib", "EVIDENCE.schema.json")
        schema = json.load(open(schema_path))
        jsonschema.validate(ev, schema)
        return None
    except Exception as e:  # pragma: no cover
        return repr(e)[:500]


def run_check(cid, tier="quick", seed=0, replay=None, only=None):
    t0 = time.time()
    cid = cid.upper()
    mod = load_check(cid)
    prop = mod.PROP
    os.makedirs(EVID, exist_ok=True)
    ev_path = os.path.join(EVID, prop + ".json")
    inconclusive = []

    ensure_deps()
    variants = set(getattr(mod, "VARIANTS", ("omp",)))
    try:
        build.ensure(sorted(variants | {"omp"}))
    except Exception as e:
        print(str(e)[-3000:])
        inconclusive.append("build failed")
        print("INCONCLUSIVE property=%s reason=build-failed" % prop)
        return 2

    if replay:
        rp = json.load(open(replay))
        cases = [rp["case"]]
    else:
        cases = mod.gen_cases(tier, seed)
        if only is not None:
            cases = [c for c in cases if only in json.dumps(c)]
    for i, c in enumerate(cases):
        c.setdefault("_i", i)
        c.setdefault("_seed", seed)
        c.setdefault("_tier", tier)

    rundir = os.path.join(VERIF, ".cache", "run", "%s-%d" % (prop, os.getpid()))
    shutil.rmtree(rundir, ignore_errors=True)
    os.makedirs(rundir)

    # group by (variant, env) since the extension variant is per process
    groups = {}
    for c in cases:
        key = (c.get("_variant", "omp"), json.dumps(c.get("_env", {}), sort_keys=True), c.get("_threads", 2))
        groups.setdefault(key, []).append(c)
    shards = []
    per_shard = getattr(mod, "CASES_PER_SHARD", None)
    for (variant, envs, threads), cs in groups.items():
        n = max(1, min(NCPU, len(cs)))
        if per_shard:
            n = max(1, (len(cs) + per_shard - 1) // per_shard)
        # heavy cases first, then round robin
        cs = sorted(cs, key=lambda c: -c.get("_cost", 1))
        for k in range(n):
            sub = cs[k::n]
            if sub:
                shards.append(Shard(len(shards), sub, variant, json.loads(envs), threads))
    case_timeout = getattr(mod, "CASE_TIMEOUT", 300)
    if tier == "thorough":
        case_timeout = getattr(mod, "CASE_TIMEOUT_THOROUGH", case_timeout * 2)
    results, crashes, timeouts = [], [], []
    with ThreadPoolExecutor(NCPU) as ex:
        futs = [ex.submit(_run_shard, cid, s, rundir, case_timeout, results, crashes, timeouts) for s in shards]
        for f in futs:
            f.result()

    runtime_aborts = sum(len(sh.__dict__.get("runtime_aborts", [])) for sh in shards)
    # ---- decide
    known = load_known(prop)
    violations, known_hits = [], {}
    obs_total = {}
    keys = set()
    samples = []
    n_eval = 0
    skipped = {}
    errors = []
    for r in sorted(results, key=lambda r: r.get("_i", 0)):
        if r.get("_proc_obs"):
            po = dict(r["_proc_obs"])
            for v in po.pop("viol", []) or []:
                v = dict(v)
                v.setdefault("property", prop)
                e = classify(v, known)
                if e is not None:
                    known_hits.setdefault(e["id"], {"entry": e, "n": 0, "first": v})
                    known_hits[e["id"]]["n"] += 1
                else:
                    violations.append({"viol": v, "case": {"_process_level": True, "variant": po.get("variant")}})
            merge_obs(obs_total, po)
            continue
        n_eval += r.get("evals", 1)
        merge_obs(obs_total, r.get("obs"))
        if r.get("skip"):
            skipped[r["skip"]] = skipped.get(r["skip"], 0) + 1
        if r.get("error"):
            errors.append({"case": r.get("case"), "error": r["error"]})
        if r.get("timeout"):
            timeouts.append({"case": r.get("case"), "where": "in-worker alarm"})
        if r.get("nontrivial"):
            for k in (r.get("keys") or [r.get("key") or _stable_hash(r.get("case"))]):
                keys.add(k)
        if r.get("sample") is not None and len(samples) < 6:
            samples.append(r["sample"])
        for v in r.get("viol", []):
            v = dict(v)
            v.setdefault("property", prop)
            e = classify(v, known)
            if e is not None:
                known_hits.setdefault(e["id"], {"entry": e, "n": 0, "first": v})
                known_hits[e["id"]]["n"] += 1
            else:
                violations.append({"viol": v, "case": r.get("case")})
    crash_is_violation = getattr(mod, "CRASH_IS_VIOLATION", False)
    for c in crashes:
        v = {"kind": "crash", "returncode": c["returncode"], "stderr_tail": c["stderr_tail"], "variant": c["variant"], "property": prop}
        if hasattr(mod, "classify_crash"):
            v.update(mod.classify_crash(c) or {})
        # a fatal signal raised while the code under test was executing a legitimate case (SIGSEGV, SIGBUS, SIGFPE, SIGABRT, SIGILL) refutes any
        # property whose observable that call was to produce; a SIGKILL / unknown death (OOM killer, operator) stays inconclusive
        fatal = c.get("case") is not None and c.get("returncode") in (-11, -7, -8, -6, -4)
        if fatal and v.get("kind") == "crash":
            v["kind"] = "crash_fatal_signal"
        if crash_is_violation or v.get("is_violation") or fatal:
            e = classify(v, known)
            if e is not None:
                known_hits.setdefault(e["id"], {"entry": e, "n": 0, "first": v})
                known_hits[e["id"]]["n"] += 1
            else:
                violations.append({"viol": v, "case": c["case"]})
        else:
            inconclusive.append("worker crashed rc=%s on case %s: %s" % (c["returncode"], json.dumps(c["case"])[:200], c["stderr_tail"][-400:]))
    for t in timeouts:
        inconclusive.append("watchdog timeout on case %s" % json.dumps(t.get("case"))[:300])
    exc_is_violation = getattr(mod, "EXCEPTION_IS_VIOLATION", False)
    for e in errors:
        if exc_is_violation:
            v = {"kind": "exception", "error": e["error"][-1500:], "property": prop}
            ke = classify(v, known)
            if ke is None:
                violations.append({"viol": v, "case": e["case"]})
            else:
                known_hits.setdefault(ke["id"], {"entry": ke, "n": 0, "first": v})
                known_hits[ke["id"]]["n"] += 1
        else:
            inconclusive.append("unexpected exception in case %s: %s" % (json.dumps(e["case"])[:200], e["error"][-800:]))

    cov_extra, inc2 = ({}, [])
    if hasattr(mod, "summarize"):
        try:
            cov_extra, inc2 = mod.summarize(results, obs_total, tier)
        except Exception as ex:  # summariser bug must not hide verdicts
            inc2 = ["summarize failed: %r" % (ex,)]
    inconclusive.extend(inc2 or [])
    min_nontrivial = getattr(mod, "MIN_NONTRIVIAL", {"quick": 2, "thorough": 2}).get(tier, 2)
    if not replay and only is None and len(keys) < min_nontrivial:
        inconclusive.append("only %d distinct non-trivial cases (< %d)" % (len(keys), min_nontrivial))

    # ---- replay files
    rdir = os.path.join(EVID, "replay")
    vlines = []
    if violations:
        os.makedirs(rdir, exist_ok=True)
    seen_kinds = {}
    for v in violations:
        kind = v["viol"].get("kind", "violation")
        seen_kinds[kind] = seen_kinds.get(kind, 0) + 1
        if seen_kinds[kind] > int(os.environ.get("VERIF_WITNESS_CAP", "5")):
            continue
        path = os.path.join(rdir, "%s-%s.json" % (prop, _stable_hash(v)))
        with open(path, "w") as f:
            json.dump({"property": prop, "case": v["case"], "violation": v["viol"], "seed": seed, "tier": tier}, f, indent=1, default=str)
        vlines.append("VIOLATION property=%s replay=%s" % (prop, path))
        print("  witness[%s]: %s" % (kind, json.dumps({k: x for k, x in v["viol"].items() if k not in ("stderr_tail",)}, default=str)[:700]))

    wall = time.time() - t0
    coverage = {
        "evaluations": int(n_eval),
        "distinct_nontrivial": len(keys),
        "rule": getattr(mod, "RULE", ""),
        "samples": samples or [c for c in cases[:2]],
        "cases": len(cases),
        "worker_processes": len(shards),
        "observed": obs_total,
        "skipped": skipped,
        "known_findings_seen": {k: {"n": h["n"], "what": h["entry"].get("what"), "first_witness": {a: b for a, b in h["first"].items() if a != "stderr_tail"}} for k, h in known_hits.items()},
        "violations_by_kind": seen_kinds,
        "inconclusive_reasons": inconclusive[:20],
        "tool_runtime_aborts_retried": runtime_aborts,
    }
    coverage.update(cov_extra or {})
    if getattr(mod, "EXHAUSTIVE", False):
        coverage["exhaustive"] = True
    ev = {
        "property_id": prop,
        "tier": tier if tier in ("quick", "thorough") else "quick",
        "seed": int(seed),
        "level": getattr(mod, "LEVEL", "exploration"),
        "coverage": coverage,
        "assumptions": list(getattr(mod, "ASSUMPTIONS", [])),
        "wall_s": round(wall, 2),
        "violations": len(violations),
    }
    if not replay and only is None:
        bad = validate_evidence(ev)
        if bad:
            inconclusive.append("evidence does not validate: " + bad)
        with open(ev_path, "w") as f:
            json.dump(ev, f, indent=1, default=str)
    if not os.environ.get("VERIF_KEEP_RUN"):
        shutil.rmtree(rundir, ignore_errors=True)

    print("%s tier=%s seed=%s cases=%d evaluations=%d distinct_nontrivial=%d wall=%.1fs" % (prop, tier, seed, len(cases), n_eval, len(keys), wall))
    brief = {k: v for k, v in obs_total.items() if isinstance(v, (int, float))}
    if brief:
        print("  observed: " + json.dumps(brief)[:1500])
    for k, h in known_hits.items():
        print("KNOWN-FINDING: property=%s %s [%s, %d occurrences]" % (prop, h["entry"].get("what"), k, h["n"]))
    if violations:
        for l in vlines:
            print(l)
        return 1
    if inconclusive:
        for r in inconclusive[:10]:
            print("  inconclusive: " + r[:1500])
        print("INCONCLUSIVE property=%s reason=%s" % (prop, inconclusive[0][:200].replace("\n", " ")))
        return 2
    print("HELD property=%s (on everything explored)" % prop)
    return 0
